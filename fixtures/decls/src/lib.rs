//! Declaration corpus for the table rules (C09, C11, C12, C14): every module holds one derive
//! declaration; `oracle/<module>.json` states by hand what the declaration means.
//! Nothing here is executed: the crate is only type-checked and its MIR dumped.
#![allow(dead_code)]

pub mod d01_prefixes {
    //! names sharing a prefix but not adjacent; one name a prefix of another
    use embedded_cli::Command;

    #[derive(Command)]
    pub enum Cmd {
        /// Get something
        Get,
        /// Set something
        Set,
        /// Get the LED
        GetLed,
        /// Go
        G,
    }
}

pub mod d02_names {
    //! explicit names, including a multi-byte one
    use embedded_cli::Command;

    #[derive(Command)]
    pub enum Cmd {
        /// Renamed
        #[command(name = "rn")]
        Rename,
        /// Multi-byte name
        #[command(name = "привет")]
        Hello,
        /// Kebab case
        TwoWords,
    }
}

pub mod d03_positionals {
    use embedded_cli::Command;

    #[derive(Command)]
    pub enum Cmd<'a> {
        /// Positionals of every flavour
        Pos {
            /// required number
            first: u8,
            /// optional text
            second: Option<&'a str>,
            /// defaulted by string
            #[arg(default_value = "7")]
            third: u16,
            /// defaulted by Default
            #[arg(default_value_t)]
            fourth: i32,
            /// defaulted by expression
            #[arg(default_value_t = 9)]
            fifth: u32,
        },
    }
}

pub mod d04_options {
    use embedded_cli::Command;

    #[derive(Command)]
    pub enum Cmd<'a> {
        /// Options and flags
        Opt {
            /// generated short and long
            #[arg(short, long)]
            alpha: Option<&'a str>,
            /// custom short and long
            #[arg(short = 'B', long = "be-ta")]
            beta: u8,
            /// value name
            #[arg(long, value_name = "FILE")]
            gamma: Option<&'a str>,
            /// defaulted option
            #[arg(short, default_value = "3")]
            delta: u8,
            /// flag only short
            #[arg(short)]
            quiet: bool,
            /// flag only long
            #[arg(long)]
            verbose: bool,
            /// positional after options
            file: &'a str,
        },
    }
}

pub mod d05_types {
    use embedded_cli::Command;

    #[derive(Command)]
    pub enum Cmd<'a> {
        /// One field of every FromArgument type
        Types {
            a: char,
            b: bool,
            c: u8,
            d: i8,
            e: u16,
            f: i16,
            g: u32,
            h: i32,
            i: u64,
            j: i64,
            k: u128,
            l: i128,
            m: usize,
            n: isize,
            o: f32,
            p: f64,
            q: &'a str,
        },
    }
}

pub mod d06_subcommands {
    use embedded_cli::Command;

    #[derive(Command)]
    pub enum Top<'a> {
        /// named subcommand field with options before it
        Named {
            /// a flag
            #[arg(short, long)]
            verbose: bool,
            /// an option
            #[arg(short, long)]
            level: Option<u8>,
            #[command(subcommand)]
            command: Mid<'a>,
        },
        /// tuple subcommand variant
        #[command(subcommand)]
        Tuple(Mid<'a>),
        /// plain
        Plain,
    }

    #[derive(Command)]
    pub enum Mid<'a> {
        /// middle with nested
        Deep {
            /// an option before the nested subcommand
            #[arg(short, long)]
            item: Option<&'a str>,
            #[command(subcommand)]
            command: Leaf,
        },
        /// middle leaf
        Stop {
            /// value
            value: u8,
        },
    }

    #[derive(Command)]
    pub enum Leaf {
        /// leaf one
        One,
        /// leaf two
        Two {
            /// flag
            #[arg(short)]
            x: bool,
        },
    }
}

pub mod d07_groups {
    use embedded_cli::command::RawCommand;
    use embedded_cli::{Command, CommandGroup};

    #[derive(Command)]
    pub enum Alpha<'a> {
        /// alpha one
        AlphaOne {
            /// value
            value: &'a str,
        },
        /// shared prefix across groups
        Status,
    }

    #[derive(Command)]
    #[command(help_title = "Beta commands")]
    pub enum Beta {
        /// beta one
        BetaOne,
        /// shares the prefix `sta` with Alpha::Status
        Start,
    }

    #[derive(Command)]
    pub enum Secret {
        /// not listed anywhere
        Backdoor,
    }

    #[derive(CommandGroup)]
    pub enum Group<'a> {
        Alpha(Alpha<'a>),
        Beta(Beta),
        #[group(hidden)]
        Secret(Secret),
        Other(RawCommand<'a>),
    }

    /// same members, other order
    #[derive(CommandGroup)]
    pub enum Group2<'a> {
        Beta(Beta),
        #[group(hidden)]
        Secret(Secret),
        Alpha(Alpha<'a>),
    }

    /// a visible member without commands of its own (the raw catch-all) *between* two members that have some
    #[derive(CommandGroup)]
    pub enum Group3<'a> {
        Alpha(Alpha<'a>),
        Other(RawCommand<'a>),
        Beta(Beta),
    }
}

pub mod d08_docs {
    use embedded_cli::Command;

    #[derive(Command)]
    #[command(help_title = "Documented")]
    pub enum Cmd {
        NoDoc,
        /// One line
        OneLine,
        /// First paragraph
        /// continues here.
        ///
        /// Second paragraph.
        Several {
            /// An argument with
            /// two lines
            arg: u8,
        },
    }
}

pub mod d09_skips {
    use embedded_cli::Command;

    #[derive(Command)]
    #[command(skip_autocomplete)]
    pub enum NoAuto {
        /// a
        A,
    }

    impl embedded_cli::service::Autocomplete for NoAuto {
        #[cfg(feature = "autocomplete")]
        fn autocomplete(
            _request: embedded_cli::autocomplete::Request<'_>,
            _autocompletion: &mut embedded_cli::autocomplete::Autocompletion<'_>,
        ) {
        }
    }
}

pub mod d10_name_combos {
    //! generated and explicit option names mixed; custom value names on required arguments
    use embedded_cli::Command;

    #[derive(Command)]
    pub enum Cmd<'a> {
        /// Mixed generated and explicit names
        Mix {
            /// bare short with an explicit long whose first letter differs
            #[arg(short, long = "output")]
            file: Option<&'a str>,
            /// explicit short with a generated long
            #[arg(short = 'x', long)]
            extra: bool,
            /// required option with a custom value name
            #[arg(long, value_name = "TIMES")]
            count: u8,
            /// required positional with a custom value name
            #[arg(value_name = "PATH")]
            source: &'a str,
        },
    }
}

pub mod d11_unicode_fields {
    //! field identifiers outside ASCII: generated short, long and value names are taken by character, not by byte
    use embedded_cli::Command;

    #[derive(Command)]
    pub enum Cmd<'a> {
        /// Non-ASCII field identifiers
        Uni {
            /// generated short and long from a Cyrillic identifier
            #[arg(short, long)]
            ключ: Option<&'a str>,
            /// flag with a generated short from a two-byte Latin identifier
            #[arg(short)]
            émis: bool,
            /// required positional
            путь: &'a str,
        },
    }
}

pub mod d12_verbatim_names {
    //! explicit names are used as written: no case folding, no `_` → `-` conversion (that is for generated names only)
    use embedded_cli::Command;

    #[derive(Command)]
    pub enum Cmd<'a> {
        /// Explicit names with capitals and underscores
        #[command(name = "Set_Mode")]
        SetMode {
            /// explicit long in camel case
            #[arg(long = "noEcho")]
            no_echo: bool,
            /// explicit long with an underscore, generated short
            #[arg(short, long = "dry_run")]
            dry: Option<&'a str>,
            /// generated long from a snake-case identifier
            #[arg(long)]
            baud_rate: Option<u8>,
        },
    }
}

pub mod d13_help_like_names {
    //! options the user names like the help switch: a generated short `h` (from `host`) and an explicit short `h` on a flag;
    //! the derived parser treats them like any other declared option (whether `-h` reaches it is the CLI's business)
    use embedded_cli::Command;

    #[derive(Command)]
    pub enum Cmd<'a> {
        /// Option with a generated short h
        Connect {
            /// host to connect to
            #[arg(short, long)]
            host: Option<&'a str>,
            /// port
            #[arg(short, long)]
            port: Option<u8>,
        },
        /// Flag with an explicit short h
        Dump {
            /// hex output
            #[arg(short = 'h')]
            hex: bool,
            /// what to dump
            what: &'a str,
        },
    }
}
