//! Compile-fail witnesses (and their compiling twins) for the encapsulation the static analyses assume: application code
//! - the handler, a completer, anything outside the crate - cannot reach the state whose invariants the unchecked
//! operations of the library rely on.  Each witness names the crate as an external user would and must fail with the
//! stated error code; its twin differs only by the offending line and must compile (a witness whose path is merely wrong
//! would also "fail to compile").  Run with `cargo +nightly test --doc` (error codes are ignored on stable).

// W1 / W2 / W6 (no field of `Autocompletion` or `Writer` is accessible) are generated per field from the current field
// names by analysis/witness.py and appended below at run time: a witness must fail because the field is *private* (E0616),
// not because a renamed field no longer exists.

/// W3: the line editor (cursor / valid / buffer: the invariant `cursor <= valid <= len(buffer)` and the UTF-8 content of
/// `buffer[..valid]`) is not reachable at all: its module is private.
/// ```compile_fail,E0603
/// use embedded_cli::editor::Editor;
/// ```
/// twin:
/// ```no_run
/// use embedded_cli::cli::Cli;
/// ```
pub struct W3EditorModulePrivate;

/// W4: neither is the history store (NUL-separated entries, `used <= len(buffer)`).
/// ```compile_fail,E0603
/// use embedded_cli::history::History;
/// ```
/// twin:
/// ```no_run
/// use embedded_cli::buffer::Buffer;
/// ```
pub struct W4HistoryModulePrivate;

/// W5: token lists (raw text + exhausted flag, built only by the in-place tokenizer) cannot be forged: the module is
/// private.
/// ```compile_fail,E0603
/// use embedded_cli::token::Tokens;
/// ```
/// twin:
/// ```no_run
/// use embedded_cli::arguments::Arg;
/// ```
pub struct W5TokenModulePrivate;

/// W7: the scalar decoder and the unchecked helpers are internal (no caller outside the crate can violate their
/// `# Safety` contracts).
/// ```compile_fail,E0603
/// use embedded_cli::utils::copy_nonoverlapping;
/// ```
/// twin:
/// ```no_run
/// use embedded_cli::codes::CRLF;
/// ```
pub struct W7UtilsModulePrivate;
