//! Compile-fail witnesses (and their compiling twins) for the encapsulation the static analyses assume: application code
//! - the handler, a completer, anything outside the crate - cannot reach the state whose invariants the unchecked
//! operations of the library rely on.  Each witness names the crate as an external user would and must fail with the
//! stated error code; its twin differs only by the offending line and must compile (a witness whose path is merely wrong
//! would also "fail to compile").  Run with `cargo +nightly test --doc` (error codes are ignored on stable).

/// W1: the completion state (`autocompleted <= buffer.len()`, the invariant C03 assumes a completer preserves) cannot be
/// written from outside: the fields of `Autocompletion` are private.
/// ```compile_fail,E0616
/// let mut buf = [0u8; 8];
/// let mut a = embedded_cli::autocomplete::Autocompletion::new(&mut buf);
/// a.autocompleted = Some(100);
/// a.merge_autocompletion("x");
/// ```
/// twin:
/// ```no_run
/// let mut buf = [0u8; 8];
/// let mut a = embedded_cli::autocomplete::Autocompletion::new(&mut buf);
/// a.merge_autocompletion("x");
/// ```
pub struct W1AutocompletionFieldsPrivate;

/// W2: the completion buffer itself cannot be swapped or read raw from outside.
/// ```compile_fail,E0616
/// let mut buf = [0u8; 8];
/// let a = embedded_cli::autocomplete::Autocompletion::new(&mut buf);
/// let _ = a.buffer.len();
/// ```
/// twin:
/// ```no_run
/// let mut buf = [0u8; 8];
/// let a = embedded_cli::autocomplete::Autocompletion::new(&mut buf);
/// let _ = a.autocompleted();
/// ```
pub struct W2AutocompletionBufferPrivate;

/// W3: the line editor (cursor / valid / buffer: the invariant `cursor <= valid <= len(buffer)` and the UTF-8 content of
/// `buffer[..valid]`) is not reachable at all: its module is private.
/// ```compile_fail,E0603
/// use embedded_cli::editor::Editor;
/// ```
/// twin:
/// ```no_run
/// use embedded_cli::cli::Cli;
/// ```
pub struct W3EditorModulePrivate;

/// W4: neither is the history store (NUL-separated entries, `used <= len(buffer)`).
/// ```compile_fail,E0603
/// use embedded_cli::history::History;
/// ```
/// twin:
/// ```no_run
/// use embedded_cli::buffer::Buffer;
/// ```
pub struct W4HistoryModulePrivate;

/// W5: token lists (raw text + exhausted flag, built only by the in-place tokenizer) cannot be forged: the module is
/// private.
/// ```compile_fail,E0603
/// use embedded_cli::token::Tokens;
/// ```
/// twin:
/// ```no_run
/// use embedded_cli::arguments::Arg;
/// ```
pub struct W5TokenModulePrivate;

/// W6: the writer's dirty tracking (which decides the line break before the next prompt) changes only through its
/// methods: the fields are private.
/// ```compile_fail,E0616
/// fn f<W: embedded_io::Write<Error = E>, E: embedded_io::Error>(w: &mut embedded_cli::writer::Writer<'_, W, E>) {
///     w.dirty = false;
/// }
/// ```
/// twin:
/// ```no_run
/// fn f<W: embedded_io::Write<Error = E>, E: embedded_io::Error>(w: &mut embedded_cli::writer::Writer<'_, W, E>) {
///     let _ = w.write_str("x");
/// }
/// ```
pub struct W6WriterFieldsPrivate;

/// W7: the scalar decoder and the unchecked helpers are internal (no caller outside the crate can violate their
/// `# Safety` contracts).
/// ```compile_fail,E0603
/// use embedded_cli::utils::copy_nonoverlapping;
/// ```
/// twin:
/// ```no_run
/// use embedded_cli::codes::CRLF;
/// ```
pub struct W7UtilsModulePrivate;
