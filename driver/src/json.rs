//! Minimal JSON value + serializer (no external crates available for a rustc_private driver).

use std::fmt::Write;

#[derive(Clone, Debug)]
pub enum J {
    Null,
    Bool(bool),
    Int(i128),
    Str(String),
    Arr(Vec<J>),
    Obj(Vec<(&'static str, J)>),
}

impl J {
    pub fn s<S: Into<String>>(s: S) -> J {
        J::Str(s.into())
    }
    pub fn write(&self, out: &mut String) {
        match self {
            J::Null => out.push_str("null"),
            J::Bool(b) => out.push_str(if *b { "true" } else { "false" }),
            J::Int(i) => {
                // JSON numbers beyond 2^53 lose precision in many readers; python is fine.
                let _ = write!(out, "{}", i);
            }
            J::Str(s) => write_str(s, out),
            J::Arr(a) => {
                out.push('[');
                for (i, v) in a.iter().enumerate() {
                    if i > 0 {
                        out.push(',');
                    }
                    v.write(out);
                }
                out.push(']');
            }
            J::Obj(o) => {
                out.push('{');
                for (i, (k, v)) in o.iter().enumerate() {
                    if i > 0 {
                        out.push(',');
                    }
                    write_str(k, out);
                    out.push(':');
                    v.write(out);
                }
                out.push('}');
            }
        }
    }
}

fn write_str(s: &str, out: &mut String) {
    out.push('"');
    for c in s.chars() {
        match c {
            '"' => out.push_str("\\\""),
            '\\' => out.push_str("\\\\"),
            '\n' => out.push_str("\\n"),
            '\r' => out.push_str("\\r"),
            '\t' => out.push_str("\\t"),
            c if (c as u32) < 0x20 => {
                let _ = write!(out, "\\u{:04x}", c as u32);
            }
            c => out.push(c),
        }
    }
    out.push('"');
}

#[macro_export]
macro_rules! obj {
    ($($k:literal : $v:expr),* $(,)?) => {
        $crate::json::J::Obj(vec![$(($k, $v)),*])
    };
}
