//! ecli-mirdump: a rustc_private driver that dumps the type-checked program (MIR at
//! mir-opt-level 0, resolved callees, evaluated constants, ADT layouts) of selected crates
//! as JSON facts for the static-analysis engines under /verif/analysis.
//!
//! It is injected with RUSTC_WORKSPACE_WRAPPER under `cargo +nightly check`.
//! Env:  ECLI_OUT   directory to write `<crate>-<pid>.json` files into (required)
//!       ECLI_CRATES comma-separated crate names to dump (default list below)

#![feature(rustc_private)]
#![allow(clippy::all)]

extern crate rustc_abi;
extern crate rustc_const_eval;
extern crate rustc_driver;
extern crate rustc_hir;
extern crate rustc_interface;
extern crate rustc_middle;
extern crate rustc_session;
extern crate rustc_span;

mod json;

use json::J;
use rustc_hir::def::DefKind;
use rustc_hir::def_id::{DefId, LocalDefId};
use rustc_middle::mir::{
    self, AggregateKind, AssertKind, BasicBlockData, Body, CastKind, Const, ConstValue, Operand,
    Place, ProjectionElem, Rvalue, StatementKind, TerminatorKind,
};
use rustc_middle::ty::{self, GenericArgKind, Instance, Ty, TyCtxt, TypingEnv};
use rustc_span::Span;

struct Cb;

impl rustc_driver::Callbacks for Cb {
    fn after_analysis<'tcx>(
        &mut self,
        _c: &rustc_interface::interface::Compiler,
        tcx: TyCtxt<'tcx>,
    ) -> rustc_driver::Compilation {
        let krate = tcx.crate_name(rustc_hir::def_id::LOCAL_CRATE).to_string();
        let wanted = std::env::var("ECLI_CRATES").unwrap_or_else(|_| {
            "embedded_cli,embedded_cli_macros,cli,desktop,decls,witness".to_string()
        });
        if !wanted.split(',').any(|w| w == krate) {
            return rustc_driver::Compilation::Continue;
        }
        let Ok(out_dir) = std::env::var("ECLI_OUT") else {
            return rustc_driver::Compilation::Continue;
        };
        let facts = rustc_middle::ty::print::with_no_visible_paths!(
            rustc_middle::ty::print::with_no_trimmed_paths!(dump_crate(tcx, &krate))
        );
        let mut s = String::with_capacity(1 << 22);
        facts.write(&mut s);
        let is_test = tcx.sess.opts.test;
        let path = format!(
            "{}/{}{}-{}.json",
            out_dir,
            krate,
            if is_test { "-test" } else { "" },
            std::process::id()
        );
        let tmp = format!("{}.tmp", path);
        std::fs::write(&tmp, s).expect("write facts");
        std::fs::rename(&tmp, &path).expect("rename facts");
        rustc_driver::Compilation::Continue
    }
}

fn main() {
    let mut args: Vec<String> = std::env::args().collect();
    // RUSTC_WORKSPACE_WRAPPER convention: argv[1] is the path of the real rustc.
    if args.len() > 1 && (args[1].ends_with("rustc") || args[1].ends_with("rustc.exe")) {
        args.remove(1);
    }
    rustc_driver::run_compiler(&args, &mut Cb);
}

// ---------------------------------------------------------------------------------------------

fn span_str(tcx: TyCtxt<'_>, sp: Span) -> String {
    let sm = tcx.sess.source_map();
    let lo = sm.lookup_char_pos(sp.lo());
    let file = match &lo.file.name {
        rustc_span::FileName::Real(r) => r
            .local_path()
            .map(|p| p.to_string_lossy().into_owned())
            .unwrap_or_else(|| format!("{:?}", lo.file.name)),
        other => format!("{:?}", other),
    };
    format!("{}:{}:{}", file, lo.line, lo.col.0 + 1)
}

fn expansion_of(sp: Span) -> J {
    if sp.from_expansion() {
        let d = sp.ctxt().outer_expn_data();
        J::s(format!("{:?}", d.kind))
    } else {
        J::Null
    }
}

fn dump_crate<'tcx>(tcx: TyCtxt<'tcx>, krate: &str) -> J {
    let mut fns = Vec::new();
    let mut adts = Vec::new();
    let mut consts = Vec::new();
    let mut traits = Vec::new();
    let mut impls = Vec::new();

    let unsafe_spans = collect_unsafe_block_spans(tcx);

    for ldid in tcx.hir_crate_items(()).definitions() {
        let did = ldid.to_def_id();
        match tcx.def_kind(did) {
            DefKind::Struct | DefKind::Enum => adts.push(dump_adt(tcx, did)),
            DefKind::Const { .. } | DefKind::AssocConst { .. } => {
                if let Some(c) = dump_named_const(tcx, ldid) {
                    consts.push(c);
                }
            }
            DefKind::Trait => {
                let items: Vec<J> = tcx
                    .associated_items(did)
                    .in_definition_order()
                    .map(|it| J::s(it.name().to_string()))
                    .collect();
                traits.push(obj! {"path": J::s(tcx.def_path_str(did)), "items": J::Arr(items)});
            }
            DefKind::Impl { of_trait } => {
                let self_ty = tcx.type_of(did).instantiate_identity().skip_norm_wip();
                let tr = if of_trait {
                    let t = tcx.impl_trait_ref(did).instantiate_identity().skip_norm_wip();
                    J::s(tcx.def_path_str(t.def_id))
                } else {
                    J::Null
                };
                let items: Vec<J> = tcx
                    .associated_items(did)
                    .in_definition_order()
                    .map(|it| J::s(tcx.def_path_str(it.def_id)))
                    .collect();
                impls.push(obj! {
                    "path": J::s(tcx.def_path_str(did)),
                    "self_ty": dump_ty(tcx, self_ty),
                    "trait": tr,
                    "items": J::Arr(items),
                    "span": J::s(span_str(tcx, tcx.def_span(did))),
                    "expn": expansion_of(tcx.def_span(did)),
                });
            }
            _ => {}
        }
    }

    for &ldid in tcx.mir_keys(()) {
        let did = ldid.to_def_id();
        let kind = tcx.def_kind(did);
        if !matches!(kind, DefKind::Fn | DefKind::AssocFn | DefKind::Closure) {
            continue;
        }
        if tcx.is_constructor(did) {
            continue;
        }
        fns.push(dump_fn(tcx, ldid, kind, &unsafe_spans));
    }

    let sm = tcx.sess.source_map();
    let mut files = Vec::new();
    for f in sm.files().iter() {
        if let rustc_span::FileName::Real(r) = &f.name {
            if let Some(p) = r.local_path() {
                if f.cnum == rustc_hir::def_id::LOCAL_CRATE {
                    files.push(J::s(p.to_string_lossy().into_owned()));
                }
            }
        }
    }
    let mut cfgs: Vec<String> = tcx
        .sess
        .config
        .iter()
        .filter_map(|(k, v)| {
            let k = k.to_string();
            if k == "feature" || k == "test" || k.starts_with("funbiscuit") {
                Some(match v {
                    Some(v) => format!("{}={}", k, v),
                    None => k,
                })
            } else {
                None
            }
        })
        .collect();
    cfgs.sort();

    obj! {
        "crate": J::s(krate),
        "is_test": J::Bool(tcx.sess.opts.test),
        "cfgs": J::Arr(cfgs.into_iter().map(J::s).collect()),
        "files": J::Arr(files),
        "adts": J::Arr(adts),
        "consts": J::Arr(consts),
        "traits": J::Arr(traits),
        "impls": J::Arr(impls),
        "fns": J::Arr(fns),
    }
}

// ---- unsafe blocks (HIR) --------------------------------------------------------------------

fn collect_unsafe_block_spans(tcx: TyCtxt<'_>) -> Vec<(LocalDefId, Span)> {
    use rustc_hir::intravisit::{self, Visitor};
    struct V<'tcx> {
        tcx: TyCtxt<'tcx>,
        out: Vec<(LocalDefId, Span)>,
    }
    impl<'tcx> Visitor<'tcx> for V<'tcx> {
        type NestedFilter = rustc_middle::hir::nested_filter::All;
        fn maybe_tcx(&mut self) -> Self::MaybeTyCtxt {
            self.tcx
        }
        fn visit_block(&mut self, b: &'tcx rustc_hir::Block<'tcx>) {
            if let rustc_hir::BlockCheckMode::UnsafeBlock(_) = b.rules {
                self.out.push((b.hir_id.owner.def_id, b.span));
            }
            intravisit::walk_block(self, b);
        }
    }
    let mut v = V { tcx, out: Vec::new() };
    tcx.hir_walk_toplevel_module(&mut v);
    v.out
}

// ---- ADTs and constants -----------------------------------------------------------------------

fn vis_str(tcx: TyCtxt<'_>, did: DefId) -> &'static str {
    match tcx.visibility(did) {
        ty::Visibility::Public => "pub",
        ty::Visibility::Restricted(m) => {
            if m.is_crate_root() {
                "crate"
            } else {
                "restricted"
            }
        }
    }
}

fn dump_adt<'tcx>(tcx: TyCtxt<'tcx>, did: DefId) -> J {
    let adt = tcx.adt_def(did);
    let mut variants = Vec::new();
    for (vidx, v) in adt.variants().iter_enumerated() {
        let discr = if adt.is_enum() {
            J::Int(adt.discriminant_for_variant(tcx, vidx).val as i128)
        } else {
            J::Int(0)
        };
        let fields: Vec<J> = v
            .fields
            .iter()
            .map(|f| {
                let fty = tcx.type_of(f.did).instantiate_identity().skip_norm_wip();
                obj! {
                    "name": J::s(f.name.to_string()),
                    "ty": dump_ty(tcx, fty),
                    "vis": J::s(match f.vis {
                        ty::Visibility::Public => "pub",
                        ty::Visibility::Restricted(m) => if m.is_crate_root() { "crate" } else { "restricted" },
                    }),
                }
            })
            .collect();
        variants.push(obj! {
            "name": J::s(v.name.to_string()),
            "idx": J::Int(vidx.as_u32() as i128),
            "discr": discr,
            "fields": J::Arr(fields),
        });
    }
    obj! {
        "path": J::s(tcx.def_path_str(did)),
        "kind": J::s(if adt.is_enum() { "enum" } else if adt.is_struct() { "struct" } else { "union" }),
        "vis": J::s(vis_str(tcx, did)),
        "variants": J::Arr(variants),
        "span": J::s(span_str(tcx, tcx.def_span(did))),
        "expn": expansion_of(tcx.def_span(did)),
    }
}

fn dump_named_const<'tcx>(tcx: TyCtxt<'tcx>, ldid: LocalDefId) -> Option<J> {
    let did = ldid.to_def_id();
    // Only constants without generic parameters in scope can be evaluated here.
    let generics = tcx.generics_of(did);
    if generics.count() != 0 {
        return None;
    }
    let ty = tcx.type_of(did).instantiate_identity().skip_norm_wip();
    let val = match tcx.const_eval_poly(did) {
        Ok(v) => decode_const_value(tcx, ty, v),
        Err(_) => J::Null,
    };
    Some(obj! {
        "path": J::s(tcx.def_path_str(did)),
        "ty": dump_ty(tcx, ty),
        "val": val,
        "span": J::s(span_str(tcx, tcx.def_span(did))),
    })
}

/// Type-directed decoding of a constant value into JSON:
///   integers/bool/char -> {"int": n}
///   &str               -> {"str": "...", "bytes":[..]}
///   &[u8] / &[u8;N]    -> {"bytes":[..]}
///   &[T;N] / [T;N] / &[T] -> {"arr":[..]}
fn decode_const_value<'tcx>(tcx: TyCtxt<'tcx>, ty: Ty<'tcx>, v: ConstValue) -> J {
    match v {
        ConstValue::Scalar(s) => decode_scalar(tcx, ty, s),
        ConstValue::ZeroSized => obj! {"zst": J::Bool(true)},
        ConstValue::Slice { .. } => match ty.kind() {
            ty::Ref(_, inner, _) if inner.is_str() => {
                match v.try_get_slice_bytes_for_diagnostics(tcx) {
                    Some(b) => bytes_json(b, true),
                    None => J::Null,
                }
            }
            ty::Ref(_, inner, _) => match inner.kind() {
                ty::Slice(e) if *e == tcx.types.u8 => {
                    match v.try_get_slice_bytes_for_diagnostics(tcx) {
                        Some(b) => bytes_json(b, false),
                        None => J::Null,
                    }
                }
                _ => J::Null,
            },
            _ => J::Null,
        },
        ConstValue::Indirect { alloc_id, offset } => {
            read_val(tcx, ty, alloc_id, offset.bytes(), 0)
        }
    }
}

fn bytes_json(b: &[u8], is_str: bool) -> J {
    let arr = J::Arr(b.iter().map(|x| J::Int(*x as i128)).collect());
    if is_str {
        obj! {"str": J::s(String::from_utf8_lossy(b).into_owned()), "bytes": arr}
    } else {
        obj! {"bytes": arr}
    }
}

fn decode_scalar<'tcx>(tcx: TyCtxt<'tcx>, ty: Ty<'tcx>, s: mir::interpret::Scalar) -> J {
    use mir::interpret::Scalar;
    match s {
        Scalar::Int(i) => {
            let size = i.size();
            let bits = i.to_bits(size);
            let val: i128 = match ty.kind() {
                ty::Int(_) => {
                    let sh = 128 - size.bits();
                    if sh >= 128 { 0 } else { ((bits << sh) as i128) >> sh }
                }
                _ => bits as i128,
            };
            obj! {"int": J::Int(val)}
        }
        Scalar::Ptr(ptr, _) => {
            // pointer to an allocation: thin reference to a sized value (e.g. &[u8; 3], &[&str; 2])
            let (prov, off) = ptr.prov_and_relative_offset();
            match ty.kind() {
                ty::Ref(_, inner, _) | ty::RawPtr(inner, _) => {
                    read_val(tcx, *inner, prov.alloc_id(), off.bytes(), 0)
                }
                _ => J::Null,
            }
        }
    }
}

/// Read a value of type `ty` out of allocation `alloc_id` at byte `offset`.
fn read_val<'tcx>(
    tcx: TyCtxt<'tcx>,
    ty: Ty<'tcx>,
    alloc_id: mir::interpret::AllocId,
    offset: u64,
    depth: u32,
) -> J {
    use rustc_abi::Size;
    if depth > 6 {
        return J::Null;
    }
    let Some(ga) = tcx.try_get_global_alloc(alloc_id) else { return J::Null };
    let mir::interpret::GlobalAlloc::Memory(mem) = ga else { return J::Null };
    let alloc = mem.inner();
    let ptr_size = tcx.data_layout.pointer_size();
    let layout_size = |t: Ty<'tcx>| -> Option<u64> {
        tcx.layout_of(TypingEnv::fully_monomorphized().as_query_input(t))
            .ok()
            .map(|l| l.size.bytes())
    };
    match ty.kind() {
        ty::Bool | ty::Char | ty::Int(_) | ty::Uint(_) => {
            let Some(sz) = layout_size(ty) else { return J::Null };
            if offset + sz > alloc.size().bytes() {
                return J::Null;
            }
            let r = mir::interpret::alloc_range(Size::from_bytes(offset), Size::from_bytes(sz));
            match alloc.read_scalar(&tcx, r, false) {
                Ok(s) => decode_scalar(tcx, ty, s),
                Err(_) => J::Null,
            }
        }
        ty::Array(elem, n) => {
            let Some(n) = n.try_to_target_usize(tcx) else { return J::Null };
            let Some(esz) = layout_size(*elem) else { return J::Null };
            if *elem == tcx.types.u8 {
                let start = offset as usize;
                let end = start + n as usize;
                if end as u64 > alloc.size().bytes() {
                    return J::Null;
                }
                let b = alloc.inspect_with_uninit_and_ptr_outside_interpreter(start..end);
                return bytes_json(b, false);
            }
            let mut out = Vec::new();
            for i in 0..n {
                out.push(read_val(tcx, *elem, alloc_id, offset + i * esz, depth + 1));
            }
            obj! {"arr": J::Arr(out)}
        }
        ty::Ref(_, inner, _) => {
            let is_wide = inner.is_str() || matches!(inner.kind(), ty::Slice(_));
            let need = if is_wide { 2 * ptr_size.bytes() } else { ptr_size.bytes() };
            if offset + need > alloc.size().bytes() {
                return J::Null;
            }
            let r = mir::interpret::alloc_range(Size::from_bytes(offset), ptr_size);
            let Ok(p) = alloc.read_scalar(&tcx, r, true) else { return J::Null };
            let (inner_alloc, inner_off) = match p {
                mir::interpret::Scalar::Ptr(ptr, _) => {
                    let (prov, off) = ptr.prov_and_relative_offset();
                    (Some(prov.alloc_id()), off.bytes())
                }
                _ => (None, 0),
            };
            if is_wide {
                let r2 = mir::interpret::alloc_range(
                    Size::from_bytes(offset + ptr_size.bytes()),
                    ptr_size,
                );
                let Ok(l) = alloc.read_scalar(&tcx, r2, false) else { return J::Null };
                let Ok(len) = l.to_target_usize(&tcx).report_err() else { return J::Null };
                if len == 0 {
                    return if inner.is_str() { bytes_json(&[], true) } else if matches!(inner.kind(), ty::Slice(e) if *e == tcx.types.u8) { bytes_json(&[], false) } else { obj! {"arr": J::Arr(vec![])} };
                }
                let Some(ia) = inner_alloc else { return J::Null };
                if inner.is_str() || matches!(inner.kind(), ty::Slice(e) if *e == tcx.types.u8) {
                    let Some(mir::interpret::GlobalAlloc::Memory(m2)) = tcx.try_get_global_alloc(ia)
                    else {
                        return J::Null;
                    };
                    let a2 = m2.inner();
                    let start = inner_off as usize;
                    let end = start + len as usize;
                    if end as u64 > a2.size().bytes() {
                        return J::Null;
                    }
                    let b = a2.inspect_with_uninit_and_ptr_outside_interpreter(start..end);
                    return bytes_json(b, inner.is_str());
                }
                if let ty::Slice(e) = inner.kind() {
                    let Some(esz) = layout_size(*e) else { return J::Null };
                    let mut out = Vec::new();
                    for i in 0..len {
                        out.push(read_val(tcx, *e, ia, inner_off + i * esz, depth + 1));
                    }
                    return obj! {"arr": J::Arr(out)};
                }
                J::Null
            } else {
                let Some(ia) = inner_alloc else { return J::Null };
                read_val(tcx, *inner, ia, inner_off, depth + 1)
            }
        }
        _ => J::Null,
    }
}

// ---- types ------------------------------------------------------------------------------------

fn dump_ty<'tcx>(tcx: TyCtxt<'tcx>, ty: Ty<'tcx>) -> J {
    dump_ty_d(tcx, ty, 0)
}

fn dump_ty_d<'tcx>(tcx: TyCtxt<'tcx>, ty: Ty<'tcx>, depth: u32) -> J {
    let s = J::s(format!("{}", ty));
    if depth > 5 {
        return obj! {"k": J::s("deep"), "s": s};
    }
    match ty.kind() {
        ty::Bool => obj! {"k": J::s("bool"), "s": s},
        ty::Char => obj! {"k": J::s("char"), "s": s},
        ty::Int(i) => obj! {"k": J::s("int"), "signed": J::Bool(true),
            "w": J::Int(i.bit_width().unwrap_or(tcx.data_layout.pointer_size().bits()) as i128), "s": s},
        ty::Uint(u) => obj! {"k": J::s("int"), "signed": J::Bool(false),
            "w": J::Int(u.bit_width().unwrap_or(tcx.data_layout.pointer_size().bits()) as i128), "s": s},
        ty::Float(_) => obj! {"k": J::s("float"), "s": s},
        ty::Str => obj! {"k": J::s("str"), "s": s},
        ty::Never => obj! {"k": J::s("never"), "s": s},
        ty::Slice(e) => obj! {"k": J::s("slice"), "of": dump_ty_d(tcx, *e, depth + 1), "s": s},
        ty::Array(e, n) => obj! {"k": J::s("array"), "of": dump_ty_d(tcx, *e, depth + 1),
            "len": match n.try_to_target_usize(tcx) { Some(n) => J::Int(n as i128), None => J::Null }, "s": s},
        ty::Ref(_, t, m) => obj! {"k": J::s("ref"), "mut": J::Bool(m.is_mut()), "to": dump_ty_d(tcx, *t, depth + 1), "s": s},
        ty::RawPtr(t, m) => obj! {"k": J::s("ptr"), "mut": J::Bool(m.is_mut()), "to": dump_ty_d(tcx, *t, depth + 1), "s": s},
        ty::Tuple(ts) => obj! {"k": J::s("tuple"), "of": J::Arr(ts.iter().map(|t| dump_ty_d(tcx, t, depth + 1)).collect()), "s": s},
        ty::Adt(def, args) => obj! {"k": J::s("adt"), "path": J::s(tcx.def_path_str(def.did())),
            "args": J::Arr(args.iter().filter_map(|a| match a.kind() { GenericArgKind::Type(t) => Some(dump_ty_d(tcx, t, depth + 1)), _ => None }).collect()), "s": s},
        ty::Param(p) => obj! {"k": J::s("param"), "name": J::s(p.name.to_string()), "s": s},
        ty::Closure(d, _) => obj! {"k": J::s("closure"), "path": J::s(tcx.def_path_str(*d)), "s": s},
        ty::FnDef(d, _) => obj! {"k": J::s("fndef"), "path": J::s(tcx.def_path_str(*d)), "s": s},
        ty::FnPtr(..) => obj! {"k": J::s("fnptr"), "s": s},
        ty::Alias(..) => obj! {"k": J::s("alias"), "s": s},
        ty::Dynamic(..) => obj! {"k": J::s("dyn"), "s": s},
        _ => obj! {"k": J::s("other"), "s": s},
    }
}

// ---- functions --------------------------------------------------------------------------------

fn dump_fn<'tcx>(
    tcx: TyCtxt<'tcx>,
    ldid: LocalDefId,
    kind: DefKind,
    unsafe_spans: &[(LocalDefId, Span)],
) -> J {
    let did = ldid.to_def_id();
    let body: &Body<'tcx> = tcx.optimized_mir(did);
    let promoted = tcx.promoted_mir(did);
    let span = tcx.def_span(did);

    let (impl_self, impl_trait, impl_path) = match tcx.impl_of_assoc(did) {
        Some(imp) => {
            let self_ty = tcx.type_of(imp).instantiate_identity().skip_norm_wip();
            let tr = if tcx.impl_is_of_trait(imp) {
                let t = tcx.impl_trait_ref(imp).instantiate_identity().skip_norm_wip();
                J::s(tcx.def_path_str(t.def_id))
            } else {
                J::Null
            };
            (dump_ty(tcx, self_ty), tr, J::s(tcx.def_path_str(imp)))
        }
        None => (J::Null, J::Null, J::Null),
    };
    let trait_of = match tcx.trait_of_assoc(did) {
        Some(t) => J::s(tcx.def_path_str(t)),
        None => J::Null,
    };
    let (vis, unsafe_fn, name) = match kind {
        DefKind::Fn | DefKind::AssocFn => {
            let sig = tcx.fn_sig(did).instantiate_identity().skip_norm_wip();
            (
                J::s(vis_str(tcx, did)),
                J::Bool(sig.safety().is_unsafe()),
                J::s(tcx.item_name(did).to_string()),
            )
        }
        _ => (J::s("closure"), J::Bool(false), J::s("{closure}")),
    };
    let parent = J::s(tcx.def_path_str(tcx.parent(did)));

    // unsafe-block spans that belong to this body's owner (closures share their parent's owner)
    let owner = tcx.typeck_root_def_id(did);
    let my_unsafe: Vec<Span> = unsafe_spans
        .iter()
        .filter(|(o, _)| o.to_def_id() == owner)
        .map(|(_, s)| *s)
        .collect();

    let cx = Cx { tcx, caller: did, unsafe_spans: my_unsafe };
    let body_j = cx.dump_body(body);
    let promoted_j: Vec<J> = promoted.iter().map(|b| cx.dump_body(b)).collect();

    obj! {
        "path": J::s(tcx.def_path_str(did)),
        "name": name,
        "parent": parent,
        "kind": J::s(format!("{:?}", kind)),
        "impl": impl_path,
        "impl_self": impl_self,
        "impl_trait": impl_trait,
        "trait_of": trait_of,
        "vis": vis,
        "unsafe_fn": unsafe_fn,
        "span": J::s(span_str(tcx, span)),
        "expn": expansion_of(span),
        "body": body_j,
        "promoted": J::Arr(promoted_j),
    }
}

struct Cx<'tcx> {
    tcx: TyCtxt<'tcx>,
    caller: DefId,
    unsafe_spans: Vec<Span>,
}

impl<'tcx> Cx<'tcx> {
    fn in_unsafe(&self, sp: Span) -> bool {
        // walk up macro expansions to the call site inside this body
        let mut s = sp;
        for _ in 0..16 {
            if self.unsafe_spans.iter().any(|u| u.contains(s)) {
                return true;
            }
            if s.from_expansion() {
                s = s.ctxt().outer_expn_data().call_site;
            } else {
                break;
            }
        }
        false
    }

    fn dump_body(&self, body: &Body<'tcx>) -> J {
        let tcx = self.tcx;
        let mut names: Vec<Option<String>> = vec![None; body.local_decls.len()];
        for vdi in &body.var_debug_info {
            if let mir::VarDebugInfoContents::Place(p) = &vdi.value {
                if p.projection.is_empty() {
                    names[p.local.as_usize()] = Some(vdi.name.to_string());
                }
            }
        }
        let locals: Vec<J> = body
            .local_decls
            .iter_enumerated()
            .map(|(l, d)| {
                obj! {
                    "ty": dump_ty(tcx, d.ty),
                    "mut": J::Bool(d.mutability.is_mut()),
                    "name": match &names[l.as_usize()] { Some(n) => J::s(n.clone()), None => J::Null },
                }
            })
            .collect();
        let mut upvars = Vec::new();
        for vdi in &body.var_debug_info {
            if let mir::VarDebugInfoContents::Place(p) = &vdi.value {
                if !p.projection.is_empty() {
                    upvars.push(obj! {"name": J::s(vdi.name.to_string()), "place": self.place(p)});
                }
            }
        }
        let blocks: Vec<J> = body.basic_blocks.iter().map(|bb| self.block(body, bb)).collect();
        obj! {
            "arg_count": J::Int(body.arg_count as i128),
            "locals": J::Arr(locals),
            "upvars": J::Arr(upvars),
            "blocks": J::Arr(blocks),
        }
    }

    fn block(&self, body: &Body<'tcx>, bb: &BasicBlockData<'tcx>) -> J {
        let mut stmts = Vec::new();
        for st in &bb.statements {
            let line = J::s(span_str(self.tcx, st.source_info.span));
            match &st.kind {
                StatementKind::Assign(b) => {
                    let (p, rv) = &**b;
                    stmts.push(obj! {
                        "k": J::s("assign"),
                        "place": self.place(p),
                        "rv": self.rvalue(body, rv),
                        "span": line,
                        "expn": expansion_of(st.source_info.span),
                    });
                }
                StatementKind::SetDiscriminant { place, variant_index } => {
                    stmts.push(obj! {
                        "k": J::s("setdiscr"),
                        "place": self.place(place),
                        "variant": J::Int(variant_index.as_u32() as i128),
                        "span": line,
                    });
                }
                StatementKind::StorageDead(l) => {
                    stmts.push(obj! {"k": J::s("dead"), "l": J::Int(l.as_u32() as i128)});
                }
                StatementKind::StorageLive(_)
                | StatementKind::FakeRead(_)
                | StatementKind::PlaceMention(_)
                | StatementKind::AscribeUserType(..)
                | StatementKind::Coverage(_)
                | StatementKind::ConstEvalCounter
                | StatementKind::Nop
                | StatementKind::BackwardIncompatibleDropHint { .. } => {}
                other => {
                    stmts.push(obj! {"k": J::s("other"), "s": J::s(format!("{:?}", other)), "span": line});
                }
            }
        }
        let term = bb.terminator();
        let tspan = term.source_info.span;
        let t = match &term.kind {
            TerminatorKind::Goto { target } => obj! {"k": J::s("goto"), "t": bbj(*target)},
            TerminatorKind::SwitchInt { discr, targets } => {
                let mut vals = Vec::new();
                let mut tgts = Vec::new();
                for (v, t) in targets.iter() {
                    vals.push(J::Int(v as i128));
                    tgts.push(bbj(t));
                }
                obj! {
                    "k": J::s("switch"),
                    "op": self.operand(discr),
                    "ty": dump_ty(self.tcx, discr.ty(&body.local_decls, self.tcx)),
                    "vals": J::Arr(vals),
                    "targets": J::Arr(tgts),
                    "otherwise": bbj(targets.otherwise()),
                }
            }
            TerminatorKind::Return => obj! {"k": J::s("return")},
            TerminatorKind::Unreachable => obj! {"k": J::s("unreachable")},
            TerminatorKind::UnwindResume => obj! {"k": J::s("resume")},
            TerminatorKind::UnwindTerminate(_) => obj! {"k": J::s("terminate")},
            TerminatorKind::Drop { place, target, .. } => obj! {
                "k": J::s("drop"),
                "place": self.place(place),
                "ty": dump_ty(self.tcx, place.ty(&body.local_decls, self.tcx).ty),
                "t": bbj(*target),
            },
            TerminatorKind::Call { func, args, destination, target, fn_span, .. } => {
                let argv: Vec<J> = args.iter().map(|a| self.operand(&a.node)).collect();
                let arg_tys: Vec<J> = args
                    .iter()
                    .map(|a| dump_ty(self.tcx, a.node.ty(&body.local_decls, self.tcx)))
                    .collect();
                obj! {
                    "k": J::s("call"),
                    "func": self.callee(body, func),
                    "args": J::Arr(argv),
                    "arg_tys": J::Arr(arg_tys),
                    "dest": self.place(destination),
                    "dest_ty": dump_ty(self.tcx, destination.ty(&body.local_decls, self.tcx).ty),
                    "t": match target { Some(t) => bbj(*t), None => J::Null },
                    "fn_span": J::s(span_str(self.tcx, *fn_span)),
                    "unsafe_block": J::Bool(self.in_unsafe(tspan)),
                }
            }
            TerminatorKind::TailCall { func, args, .. } => {
                let argv: Vec<J> = args.iter().map(|a| self.operand(&a.node)).collect();
                obj! {"k": J::s("tailcall"), "func": self.callee(body, func), "args": J::Arr(argv)}
            }
            TerminatorKind::Assert { cond, expected, msg, target, .. } => {
                let m = match &**msg {
                    AssertKind::BoundsCheck { len, index } => obj! {
                        "kind": J::s("BoundsCheck"), "len": self.operand(len), "index": self.operand(index)},
                    AssertKind::Overflow(op, l, r) => obj! {
                        "kind": J::s("Overflow"), "op": J::s(format!("{:?}", op)),
                        "l": self.operand(l), "r": self.operand(r)},
                    AssertKind::OverflowNeg(o) => obj! {"kind": J::s("OverflowNeg"), "l": self.operand(o)},
                    AssertKind::DivisionByZero(o) => obj! {"kind": J::s("DivisionByZero"), "l": self.operand(o)},
                    AssertKind::RemainderByZero(o) => obj! {"kind": J::s("RemainderByZero"), "l": self.operand(o)},
                    other => obj! {"kind": J::s("Other"), "s": J::s(format!("{:?}", other))},
                };
                obj! {
                    "k": J::s("assert"),
                    "cond": self.operand(cond),
                    "expected": J::Bool(*expected),
                    "msg": m,
                    "t": bbj(*target),
                }
            }
            TerminatorKind::FalseEdge { real_target, .. } => obj! {"k": J::s("goto"), "t": bbj(*real_target)},
            TerminatorKind::FalseUnwind { real_target, .. } => obj! {"k": J::s("goto"), "t": bbj(*real_target)},
            other => obj! {"k": J::s("other"), "s": J::s(format!("{:?}", other))},
        };
        let mut t = t;
        if let J::Obj(ref mut v) = t {
            v.push(("span", J::s(span_str(self.tcx, tspan))));
            v.push(("expn", expansion_of(tspan)));
        }
        obj! {
            "stmts": J::Arr(stmts),
            "term": t,
            "cleanup": J::Bool(bb.is_cleanup),
        }
    }

    fn callee(&self, body: &Body<'tcx>, func: &Operand<'tcx>) -> J {
        let tcx = self.tcx;
        let fty = func.ty(&body.local_decls, tcx);
        match fty.kind() {
            ty::FnDef(def_id, args) => {
                let def_id = *def_id;
                let path = tcx.def_path_str(def_id);
                let name = tcx.item_name(def_id).to_string();
                let trait_of = tcx.trait_of_assoc(def_id).map(|t| tcx.def_path_str(t));
                let impl_of = tcx.impl_of_assoc(def_id);
                let (impl_self, impl_trait) = match impl_of {
                    Some(imp) => {
                        let st = tcx.type_of(imp).instantiate_identity().skip_norm_wip();
                        let tr = if tcx.impl_is_of_trait(imp) {
                            Some(tcx.def_path_str(
                                tcx.impl_trait_ref(imp).instantiate_identity().skip_norm_wip().def_id,
                            ))
                        } else {
                            None
                        };
                        (Some(dump_ty(tcx, st)), tr)
                    }
                    None => (None, None),
                };
                // try to resolve trait calls to a concrete instance
                let mut resolved = J::Null;
                let mut resolved_self = J::Null;
                if matches!(tcx.def_kind(def_id), DefKind::Fn | DefKind::AssocFn) {
                    let env = TypingEnv::post_analysis(tcx, self.caller);
                    if let Ok(Some(inst)) = Instance::try_resolve(tcx, env, def_id, args) {
                        let rid = inst.def_id();
                        resolved = J::s(tcx.def_path_str(rid));
                        if let Some(imp) = tcx.impl_of_assoc(rid) {
                            let st = tcx.type_of(imp).instantiate_identity().skip_norm_wip();
                            resolved_self = dump_ty(tcx, st);
                        }
                        if let ty::InstanceKind::Item(_) = inst.def {
                        } else {
                            // shims (closure call, fn ptr, clone, drop glue, ...)
                            resolved = J::s(format!("shim:{:?}", inst.def));
                        }
                    }
                }
                let gargs: Vec<J> = args
                    .iter()
                    .map(|a| match a.kind() {
                        GenericArgKind::Type(t) => dump_ty(tcx, t),
                        GenericArgKind::Const(c) => obj! {"k": J::s("const"), "s": J::s(format!("{}", c))},
                        GenericArgKind::Lifetime(_) => obj! {"k": J::s("lt")},
                    })
                    .collect();
                obj! {
                    "path": J::s(path),
                    "name": J::s(name),
                    "local": J::Bool(def_id.is_local()),
                    "krate": J::s(tcx.crate_name(def_id.krate).to_string()),
                    "trait": match trait_of { Some(t) => J::s(t), None => J::Null },
                    "impl_self": impl_self.unwrap_or(J::Null),
                    "impl_trait": match impl_trait { Some(t) => J::s(t), None => J::Null },
                    "resolved": resolved,
                    "resolved_self": resolved_self,
                    "gargs": J::Arr(gargs),
                }
            }
            _ => obj! {
                "path": J::Null,
                "indirect": self.operand(func),
                "ty": dump_ty(tcx, fty),
            },
        }
    }

    fn place(&self, p: &Place<'tcx>) -> J {
        let mut proj = Vec::new();
        for e in p.projection.iter() {
            proj.push(match e {
                ProjectionElem::Deref => obj! {"k": J::s("deref")},
                ProjectionElem::Field(f, t) => obj! {"k": J::s("field"), "i": J::Int(f.as_u32() as i128), "ty": dump_ty(self.tcx, t)},
                ProjectionElem::Index(l) => obj! {"k": J::s("index"), "l": J::Int(l.as_u32() as i128)},
                ProjectionElem::ConstantIndex { offset, min_length, from_end } => obj! {
                    "k": J::s("cindex"), "offset": J::Int(offset as i128),
                    "min_length": J::Int(min_length as i128), "from_end": J::Bool(from_end)},
                ProjectionElem::Subslice { from, to, from_end } => obj! {
                    "k": J::s("subslice"), "from": J::Int(from as i128), "to": J::Int(to as i128), "from_end": J::Bool(from_end)},
                ProjectionElem::Downcast(name, v) => obj! {
                    "k": J::s("downcast"), "variant": J::Int(v.as_u32() as i128),
                    "name": match name { Some(n) => J::s(n.to_string()), None => J::Null }},
                ProjectionElem::OpaqueCast(_) => obj! {"k": J::s("opaquecast")},
                ProjectionElem::UnwrapUnsafeBinder(_) => obj! {"k": J::s("unwrapbinder")},
            });
        }
        obj! {"l": J::Int(p.local.as_u32() as i128), "p": J::Arr(proj)}
    }

    fn operand(&self, o: &Operand<'tcx>) -> J {
        match o {
            Operand::Copy(p) => obj! {"k": J::s("copy"), "place": self.place(p)},
            Operand::Move(p) => obj! {"k": J::s("move"), "place": self.place(p)},
            Operand::Constant(c) => self.constant(c),
            #[allow(unreachable_patterns)]
            other => obj! {"k": J::s("otherop"), "s": J::s(format!("{:?}", other))},
        }
    }

    fn constant(&self, c: &mir::ConstOperand<'tcx>) -> J {
        let tcx = self.tcx;
        let ty = c.const_.ty();
        let mut val = J::Null;
        let mut fnpath = J::Null;
        let mut named = J::Null;
        if let ty::FnDef(d, _) = ty.kind() {
            fnpath = J::s(tcx.def_path_str(*d));
        }
        if let ty::Closure(d, _) = ty.kind() {
            fnpath = J::s(tcx.def_path_str(*d));
        }
        match c.const_ {
            Const::Val(v, t) => {
                val = decode_const_value(tcx, t, v);
            }
            Const::Unevaluated(uv, t) => {
                named = J::s(tcx.def_path_str(uv.def));
                let env = TypingEnv::post_analysis(tcx, self.caller);
                if let Ok(v) = c.const_.eval(tcx, env, c.span) {
                    val = decode_const_value(tcx, t, v);
                }
            }
            Const::Ty(t, ct) => {
                // valtree constants (e.g. string patterns of a match)
                if let Some(v) = ct.try_to_value() {
                    let cv = tcx.valtree_to_const_val(v);
                    val = decode_const_value(tcx, t, cv);
                }
            }
        }
        obj! {
            "k": J::s("const"),
            "ty": dump_ty(tcx, ty),
            "val": val,
            "fn": fnpath,
            "named": named,
            "s": J::s(format!("{}", c.const_)),
        }
    }

    fn rvalue(&self, body: &Body<'tcx>, rv: &Rvalue<'tcx>) -> J {
        let tcx = self.tcx;
        match rv {
            Rvalue::Use(op, ..) => obj! {"k": J::s("use"), "op": self.operand(op)},
            Rvalue::Repeat(op, n) => obj! {"k": J::s("repeat"), "op": self.operand(op),
                "n": match n.try_to_target_usize(tcx) { Some(n) => J::Int(n as i128), None => J::Null }},
            Rvalue::Ref(_, bk, p) => obj! {"k": J::s("ref"),
                "mut": J::Bool(matches!(bk, mir::BorrowKind::Mut { .. })), "place": self.place(p)},
            Rvalue::RawPtr(k, p) => obj! {"k": J::s("rawptr"), "kind": J::s(format!("{:?}", k)), "place": self.place(p)},
            Rvalue::Cast(kind, op, ty) => obj! {"k": J::s("cast"),
                "kind": J::s(match kind {
                    CastKind::IntToInt => "IntToInt".to_string(),
                    CastKind::Transmute => "Transmute".to_string(),
                    CastKind::PtrToPtr => "PtrToPtr".to_string(),
                    CastKind::PointerCoercion(pc, _) => format!("PointerCoercion({:?})", pc),
                    other => format!("{:?}", other),
                }),
                "op": self.operand(op),
                "from": dump_ty(tcx, op.ty(&body.local_decls, tcx)),
                "ty": dump_ty(tcx, *ty)},
            Rvalue::BinaryOp(op, b) => {
                let (l, r) = &**b;
                obj! {"k": J::s("bin"), "op": J::s(format!("{:?}", op)), "l": self.operand(l), "r": self.operand(r),
                      "lty": dump_ty(tcx, l.ty(&body.local_decls, tcx))}
            }
            Rvalue::UnaryOp(op, x) => obj! {"k": J::s("un"), "op": J::s(format!("{:?}", op)), "x": self.operand(x),
                      "xty": dump_ty(tcx, x.ty(&body.local_decls, tcx))},
            Rvalue::Discriminant(p) => obj! {"k": J::s("discr"), "place": self.place(p),
                      "ty": dump_ty(tcx, p.ty(&body.local_decls, tcx).ty)},
            Rvalue::Aggregate(kind, ops) => {
                let opsj: Vec<J> = ops.iter().map(|o| self.operand(o)).collect();
                match &**kind {
                    AggregateKind::Array(_) => obj! {"k": J::s("agg"), "ak": J::s("array"), "ops": J::Arr(opsj)},
                    AggregateKind::Tuple => obj! {"k": J::s("agg"), "ak": J::s("tuple"), "ops": J::Arr(opsj)},
                    AggregateKind::Adt(d, v, _, _, _) => {
                        let adt = tcx.adt_def(*d);
                        obj! {"k": J::s("agg"), "ak": J::s("adt"), "adt": J::s(tcx.def_path_str(*d)),
                              "variant": J::Int(v.as_u32() as i128),
                              "vname": J::s(adt.variant(*v).name.to_string()),
                              "ops": J::Arr(opsj)}
                    }
                    AggregateKind::Closure(d, _) => obj! {"k": J::s("agg"), "ak": J::s("closure"),
                              "closure": J::s(tcx.def_path_str(*d)), "ops": J::Arr(opsj)},
                    AggregateKind::RawPtr(..) => obj! {"k": J::s("agg"), "ak": J::s("rawptr"), "ops": J::Arr(opsj)},
                    other => obj! {"k": J::s("agg"), "ak": J::s("other"), "s": J::s(format!("{:?}", other)), "ops": J::Arr(opsj)},
                }
            }
            Rvalue::CopyForDeref(p) => obj! {"k": J::s("use"), "op": obj!{"k": J::s("copy"), "place": self.place(p)}},
            other => obj! {"k": J::s("other"), "s": J::s(format!("{:?}", other))},
        }
    }
}

fn bbj(b: mir::BasicBlock) -> J {
    J::Int(b.as_u32() as i128)
}
