"""Call graph over dumped MIR: edges by resolved callee (or declared path), closure creation counts as a call."""
from . import facts as F


def callees(fn):
    """Yield (key, term) for each call in fn; key = resolved path if local body may exist, else path."""
    for bi, b in enumerate(fn.blocks):
        t = b['term']
        if t['k'] == 'call':
            f = t['func']
            yield (f.get('resolved') or f.get('path'), f.get('path'), t, bi)
        for s in b['stmts']:
            if s['k'] == 'assign' and s['rv']['k'] == 'agg' and s['rv'].get('ak') == 'closure':
                yield (s['rv']['closure'], s['rv']['closure'], None, bi)
            if s['k'] == 'assign':
                # fn items / closures passed as constants (e.g. `.map(Input::Control)` or non-capturing closures)
                for o in _operands(s['rv']):
                    if o.get('k') == 'const' and o.get('fn'):
                        yield (o['fn'], o['fn'], None, bi)
        if t['k'] == 'call':
            for o in t['args']:
                if o.get('k') == 'const' and o.get('fn'):
                    yield (o['fn'], o['fn'], None, bi)


def _operands(rv):
    k = rv['k']
    if k == 'use' or k == 'cast' or k == 'repeat':
        return [rv['op']]
    if k == 'bin':
        return [rv['l'], rv['r']]
    if k == 'un':
        return [rv['x']]
    if k == 'agg':
        return rv['ops']
    return []


class CallGraph:
    def __init__(self, crates):
        self.fns = {}
        for c in crates:
            for f in c.fns:
                self.fns.setdefault(F.raw_key(f.path), f)
        self.edges = {}
        for p, f in self.fns.items():
            es = set()
            for key, path, t, bi in callees(f):
                for k in (key, path):
                    if k and F.raw_key(k) in self.fns:
                        es.add(F.raw_key(k))
                        break
            self.edges[p] = es

    def reaching(self, seed_pred):
        """Set of function paths from which a function/call satisfying seed_pred(fn) is reachable."""
        seeds = {p for p, f in self.fns.items() if seed_pred(f)}
        rev = {}
        for p, es in self.edges.items():
            for e in es:
                rev.setdefault(e, set()).add(p)
        out = set(seeds)
        work = list(seeds)
        while work:
            x = work.pop()
            for y in rev.get(x, ()):
                if y not in out:
                    out.add(y)
                    work.append(y)
        return out

    def reachable_from(self, roots):
        out = set()
        work = [r for r in roots if r in self.fns]
        while work:
            x = work.pop()
            if x in out:
                continue
            out.add(x)
            work.extend(self.edges.get(x, ()))
        return out
