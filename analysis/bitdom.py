"""Bit-provenance domain (Tier B): a value is a vector of bits, each 0, 1, a named input bit ('s', k) or unknown '?',
together with a numeric range [lo, hi] used to decide comparisons. `&`, `|`, `^` with constants, constant shifts,
truncating / zero-extending casts and `|` of bit-disjoint values are exact.

('bv', width, bits(LSB first), lo, hi)
"""


def bv(width, bits, lo=None, hi=None):
    bits = tuple(bits[:width]) + (0,) * max(0, width - len(bits))
    mn = sum((1 << i) for i, b in enumerate(bits) if b == 1)
    mx = sum((1 << i) for i, b in enumerate(bits) if b != 0)
    lo = mn if lo is None else max(lo, mn)
    hi = mx if hi is None else min(hi, mx)
    return ('bv', width, bits, lo, hi)


def const(width, n):
    return bv(width, [(n >> i) & 1 for i in range(width)], n, n)


def from_value(v, width):
    """int abstract value (singleton) -> bv"""
    if v[0] == 'bv':
        return v
    if v[0] == 'int' and v[2] is None and len(v[1]) == 1:
        return const(width, next(iter(v[1])))
    return None


def _and(a, b):
    if a == 0 or b == 0:
        return 0
    if a == 1:
        return b
    if b == 1:
        return a
    return a if a == b else '?'


def _or(a, b):
    if a == 1 or b == 1:
        return 1
    if a == 0:
        return b
    if b == 0:
        return a
    return a if a == b else '?'


def _xor(a, b):
    if a == 0:
        return b
    if b == 0:
        return a
    if a == 1 and b == 1:
        return 0
    return '?'


def binop(op, a, b):
    w = max(a[1], b[1])
    ab = a[2] + (0,) * (w - a[1])
    bb = b[2] + (0,) * (w - b[1])
    if op == 'BitAnd':
        return bv(w, [_and(x, y) for x, y in zip(ab, bb)], 0, min(a[4], b[4]))
    if op == 'BitOr':
        return bv(w, [_or(x, y) for x, y in zip(ab, bb)], max(a[3], b[3]), None)
    if op == 'BitXor':
        return bv(w, [_xor(x, y) for x, y in zip(ab, bb)])
    if op in ('Shl', 'Shr') and b[3] == b[4]:
        k = b[3]
        if op == 'Shl':
            return bv(a[1], ((0,) * k + a[2])[:a[1]], None, None)
        return bv(a[1], a[2][k:] + (0,) * k, a[3] >> k, a[4] >> k)
    if op in ('Eq', 'Ne', 'Lt', 'Le', 'Gt', 'Ge'):
        r = compare(op, a, b)
        return r
    return None


def compare(op, a, b):
    """-> True / False / None (undecided)"""
    w = max(a[1], b[1])
    ab = a[2] + (0,) * (w - a[1])
    bb = b[2] + (0,) * (w - b[1])
    if op in ('Eq', 'Ne'):
        differ = any((x == 0 and y == 1) or (x == 1 and y == 0) for x, y in zip(ab, bb)) or a[4] < b[3] or b[4] < a[3]
        same = all(x in (0, 1) and x == y for x, y in zip(ab, bb))
        if differ:
            return op == 'Ne'
        if same:
            return op == 'Eq'
        return None
    lo_a, hi_a, lo_b, hi_b = a[3], a[4], b[3], b[4]
    if op == 'Lt':
        return True if hi_a < lo_b else (False if lo_a >= hi_b else None)
    if op == 'Le':
        return True if hi_a <= lo_b else (False if lo_a > hi_b else None)
    if op == 'Gt':
        return True if lo_a > hi_b else (False if hi_a <= lo_b else None)
    if op == 'Ge':
        return True if lo_a >= hi_b else (False if hi_a < lo_b else None)
    return None


def cast(a, width):
    if width >= a[1]:
        return bv(width, a[2], a[3], a[4])
    m = (1 << width) - 1
    lo, hi = (a[3], a[4]) if a[4] <= m else (None, None)
    return bv(width, a[2][:width], lo, hi)


def fmt(a):
    def b2s(b):
        if b in (0, 1):
            return str(b)
        if b == '?':
            return '?'
        return 's%d' % b[1]
    return "[" + " ".join(b2s(b) for b in reversed(a[2])) + "]"
