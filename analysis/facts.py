"""E1 front end: run the rustc_private dumper over /repo's *current* working tree and load the facts.

Nothing here executes code of the library under analysis: cargo is asked to `check`
(type-check only, no codegen of the lib, no test run) with RUSTC_WORKSPACE_WRAPPER pointing
at /verif/driver's `ecli-mirdump`, which serialises MIR (mir-opt-level 0) as JSON.
"""
import fcntl
import hashlib
import json
import os
import re
import shutil
import subprocess
import tempfile
import time

VERIF = os.path.dirname(os.path.dirname(os.path.abspath(__file__)))
REPO = os.environ.get("ECLI_REPO", "/repo")
DRIVER = os.path.join(VERIF, "driver", "target", "release", "ecli-mirdump")
CACHE = os.path.join(VERIF, ".cache", "facts")

FEATURES = ("history", "autocomplete", "help")


def feature_configs():
    """name -> set of enabled optional features (macros always on)."""
    out = {}
    for mask in range(8):
        fs = [f for i, f in enumerate(FEATURES) if mask & (1 << i)]
        out[config_name(fs)] = fs
    assert len(out) == 8
    return out


def config_name(fs):
    """`f-hi-au-he` ... `f-none` (two letters per feature: `history` and `help` share their initial)"""
    return "f-" + ("-".join(f[:2] for f in FEATURES if f in fs) or "none")


def tree_hash(root=None):
    """sha256 over every source-relevant file of the repository working tree."""
    root = root or REPO
    h = hashlib.sha256()
    paths = []
    for dp, dns, fns in os.walk(root):
        dns[:] = sorted(d for d in dns if d not in (".git", "target", "arduino"))
        for fn in sorted(fns):
            if fn.endswith((".rs", ".toml", ".lock")):
                paths.append(os.path.join(dp, fn))
    for p in paths:
        h.update(os.path.relpath(p, root).encode())
        h.update(b"\0")
        with open(p, "rb") as f:
            h.update(f.read())
        h.update(b"\0")
    # the dumper and the fixture crates are part of the key as well
    for extra in (DRIVER,):
        if os.path.exists(extra):
            st = os.stat(extra)
            h.update(("%s:%d:%d" % (extra, st.st_size, int(st.st_mtime))).encode())
    fx = os.path.join(VERIF, "fixtures")
    for dp, dns, fns in os.walk(fx):
        dns[:] = sorted(d for d in dns if d != "target")
        for fn in sorted(fns):
            if fn.endswith((".rs", ".toml")):
                p = os.path.join(dp, fn)
                h.update(os.path.relpath(p, VERIF).encode())
                with open(p, "rb") as f:
                    h.update(f.read())
    return h.hexdigest()[:24]


def _sysroot():
    return subprocess.check_output(["rustc", "+nightly", "--print", "sysroot"], text=True).strip()


class ExtractError(Exception):
    pass


def _cargo_cmd(config):
    """cargo arguments and working directory for a named config."""
    fc = feature_configs()
    if config == "default":
        return REPO, ["-p", "embedded-cli", "--all-targets"], "embedded_cli,cli"
    if config == "desktop":
        return REPO, ["-p", "desktop"], "desktop"
    if config in fc:
        feats = ",".join(["macros"] + fc[config])
        return (
            REPO,
            ["-p", "embedded-cli", "--all-targets", "--no-default-features", "--features", feats],
            "embedded_cli,cli",
        )
    if config.startswith("libonly-") and config[8:] in fc:
        feats = ",".join(["macros"] + fc[config[8:]])
        return (
            REPO,
            ["-p", "embedded-cli", "--lib", "--no-default-features", "--features", feats],
            "embedded_cli",
        )
    if config == "decls":
        return os.path.join(VERIF, "fixtures", "decls"), ["--lib"], "decls"
    if config.startswith("decls-") and config[6:] in fc:
        feats = ",".join(fc[config[6:]])
        extra = ["--features", feats] if feats else []
        return os.path.join(VERIF, "fixtures", "decls"), ["--lib", "--no-default-features"] + extra, "decls"
    raise ExtractError("unknown config " + config)


def extract(config, key=None, quiet=True):
    """Return the directory with the fact files of `config` for the current tree."""
    key = key or tree_hash()
    out_dir = os.path.join(CACHE, key, config)
    done = os.path.join(out_dir, ".done")
    if os.path.exists(done):
        return out_dir
    os.makedirs(os.path.join(CACHE, key), exist_ok=True)
    lock_path = os.path.join(CACHE, key, config + ".lock")
    with open(lock_path, "w") as lk:
        fcntl.flock(lk, fcntl.LOCK_EX)
        if os.path.exists(done):
            return out_dir
        if not os.path.exists(DRIVER):
            raise ExtractError("driver not built: run setup (cargo +nightly build --release in /verif/driver)")
        cwd, cargo_args, crates = _cargo_cmd(config)
        tmp_out = tempfile.mkdtemp(prefix="ecli-facts-")
        tmp_target = tempfile.mkdtemp(prefix="ecli-target-")
        try:
            env = dict(os.environ)
            env.update(
                LD_LIBRARY_PATH=_sysroot() + "/lib",
                RUSTFLAGS="-Zmir-opt-level=0 -Awarnings",
                RUSTC_WORKSPACE_WRAPPER=DRIVER,
                CARGO_TARGET_DIR=tmp_target,
                ECLI_OUT=tmp_out,
                ECLI_CRATES=crates,
                CARGO_NET_OFFLINE="true",
            )
            env.pop("RUSTC_WRAPPER", None)
            tmp_src = None
            if config.startswith("decls"):
                # the harness crate path-depends on the repository under analysis: work on a scratch copy whose
                # dependency path points at REPO, and reuse the repository's lock file so that nothing is resolved
                tmp_src = tempfile.mkdtemp(prefix="ecli-decls-")
                dst = os.path.join(tmp_src, "decls")
                shutil.copytree(cwd, dst, ignore=shutil.ignore_patterns("target", "Cargo.lock"))
                ct = os.path.join(dst, "Cargo.toml")
                with open(ct) as f_:
                    txt = f_.read()
                with open(ct, "w") as f_:
                    f_.write(txt.replace('"/repo/embedded-cli"', '"%s/embedded-cli"' % REPO))
                lock_src = os.path.join(REPO, "Cargo.lock")
                if os.path.exists(lock_src):
                    shutil.copy(lock_src, os.path.join(dst, "Cargo.lock"))
                cwd = dst
            cmd = ["cargo", "+nightly", "check", "--offline"] + cargo_args
            t0 = time.time()
            p = subprocess.run(cmd, cwd=cwd, env=env, stdout=subprocess.PIPE, stderr=subprocess.STDOUT, text=True)
            if p.returncode != 0:
                raise ExtractError("cargo check failed for config %s:\n%s" % (config, p.stdout[-6000:]))
            files = [f for f in os.listdir(tmp_out) if f.endswith(".json")]
            if not files:
                raise ExtractError("no fact files produced for config %s (wrapper skipped?)\n%s" % (config, p.stdout[-3000:]))
            os.makedirs(out_dir, exist_ok=True)
            for f in files:
                # strip the pid so that names are stable: <crate>[-test].json
                stable = re.sub(r"-\d+\.json$", ".json", f)
                shutil.move(os.path.join(tmp_out, f), os.path.join(out_dir, stable))
            with open(done, "w") as f:
                f.write("%.1f\n" % (time.time() - t0))
            if not quiet:
                print("[facts] %s extracted in %.1fs: %s" % (config, time.time() - t0, sorted(files)))
        finally:
            shutil.rmtree(tmp_out, ignore_errors=True)
            shutil.rmtree(tmp_target, ignore_errors=True)
            if config.startswith("decls") and 'tmp_src' in dir() and tmp_src:
                shutil.rmtree(tmp_src, ignore_errors=True)
        _evict(keep=key)
    return out_dir


def _evict(keep, max_keys=6):
    try:
        keys = [k for k in os.listdir(CACHE) if os.path.isdir(os.path.join(CACHE, k))]
        keys.sort(key=lambda k: os.stat(os.path.join(CACHE, k)).st_mtime)
        now = time.time()
        while len(keys) > max_keys:
            k = keys.pop(0)
            # a recently touched key may belong to a concurrent run against another tree (seed matrix workers)
            if k != keep and now - os.stat(os.path.join(CACHE, k)).st_mtime > 1800:
                shutil.rmtree(os.path.join(CACHE, k), ignore_errors=True)
    except OSError:
        pass


# ----------------------------------------------------------------------------------------------
# loading


def norm_path(p):
    """Strip generic argument lists from a def-path string, keeping `<T as Trait>` qualifiers.

    `cli::Cli::<W, E>::process_byte` -> `cli::Cli::process_byte`
    `<arguments::ArgsIter<'a> as core::iter::Iterator>::next` -> `<arguments::ArgsIter as core::iter::Iterator>::next`
    """
    if p is None:
        return None
    out = []
    i = 0
    n = len(p)

    def skip_group(i):
        depth = 0
        while i < n:
            c = p[i]
            if c == "<":
                depth += 1
            elif c == ">" and p[i - 1] != "-":
                depth -= 1
                if depth == 0:
                    return i + 1
            i += 1
        return i

    while i < n:
        c = p[i]
        if c == "<":
            prev = p[i - 1] if i > 0 else ""
            is_qualifier = (i == 0 or prev in "(<, &[" or p[max(0, i - 3):i] == "as "
                            or p.startswith("<impl ", i))
            if is_qualifier:
                out.append(c)
                i += 1
            else:
                # generic args: drop, together with a preceding `::`
                if out[-2:] == [":", ":"]:
                    out.pop()
                    out.pop()
                i = skip_group(i)
        else:
            out.append(c)
            i += 1
    s = "".join(out)
    s = re.sub(r"'[a-z_]+\s?", "", s)
    return s.replace(LIB_PREFIX, "")


LIB_PREFIX = "embedded_cli::"


def raw_key(p):
    """Key for body lookup across crates: the library's own paths are printed without the crate name."""
    return p.replace(LIB_PREFIX, "") if p else p


class Fn:
    __slots__ = ("raw", "path", "npath", "name", "kind", "vis", "impl_self", "impl_trait", "trait_of",
                 "span", "expn", "body", "promoted", "unsafe_fn", "crate", "parent", "impl")

    def __init__(self, raw, crate):
        self.raw = raw
        self.crate = crate
        self.path = raw["path"]
        self.npath = norm_path(raw["path"])
        self.name = raw["name"]
        self.kind = raw["kind"]
        self.vis = raw["vis"]
        self.impl_self = raw["impl_self"]
        self.impl_trait = raw["impl_trait"]
        self.trait_of = raw["trait_of"]
        self.span = raw["span"]
        self.expn = raw["expn"]
        self.body = raw["body"]
        self.promoted = raw["promoted"]
        self.unsafe_fn = raw["unsafe_fn"]
        self.parent = raw["parent"]
        self.impl = raw["impl"]

    @property
    def blocks(self):
        return self.body["blocks"]

    def file(self):
        return self.span.split(":")[0]

    def in_tests_module(self):
        return "::tests::" in self.path or self.path.startswith("tests::")

    def __repr__(self):
        return "<Fn %s>" % self.npath


class Crate:
    def __init__(self, raw):
        self.raw = raw
        self.name = raw["crate"]
        self.is_test = raw["is_test"]
        self.cfgs = raw["cfgs"]
        self.files = raw["files"]
        self.fns = [Fn(f, self) for f in raw["fns"]]
        self.by_path = {}
        self.by_npath = {}
        for f in self.fns:
            self.by_path[f.path] = f
            self.by_npath.setdefault(f.npath, []).append(f)
        self.adts = {a["path"]: a for a in raw["adts"]}
        self.adts_n = {norm_path(a["path"]): a for a in raw["adts"]}
        self.consts = {c["path"]: c for c in raw["consts"]}
        self.impls = raw["impls"]
        self.traits = {t["path"]: t for t in raw["traits"]}

    def fn(self, npath):
        """Exactly one function with this normalised path, or KeyError."""
        fs = self.by_npath.get(npath, [])
        if len(fs) != 1:
            raise KeyError("%s: %d functions named %s" % (self.name, len(fs), npath))
        return fs[0]

    def find(self, npath):
        return self.by_npath.get(npath, [])

    def lib_fns(self):
        """Functions that are not under a #[cfg(test)] `tests` module."""
        return [f for f in self.fns if not f.in_tests_module()]


def load_dir(d):
    crates = {}
    for fn in sorted(os.listdir(d)):
        if fn.endswith(".json"):
            with open(os.path.join(d, fn)) as f:
                raw = json.load(f)
            crates[fn[:-5]] = Crate(raw)
    return crates


_loaded = {}


def load(config="default", key=None):
    key = key or tree_hash()
    k = (key, config)
    if k not in _loaded:
        _loaded[k] = load_dir(extract(config, key))
    return _loaded[k]


# ----------------------------------------------------------------------------------------------
# pretty printing (debugging aid and violation reports)


def fmt_place(pl, body=None):
    s = "_%d" % pl["l"]
    for e in pl["p"]:
        k = e["k"]
        if k == "deref":
            s = "(*%s)" % s
        elif k == "field":
            s = "%s.%d" % (s, e["i"])
        elif k == "index":
            s = "%s[_%d]" % (s, e["l"])
        elif k == "cindex":
            s = "%s[%s%d]" % (s, "-" if e["from_end"] else "", e["offset"])
        elif k == "subslice":
            s = "%s[%d..%s%d]" % (s, e["from"], "-" if e["from_end"] else "", e["to"])
        elif k == "downcast":
            s = "(%s as %s)" % (s, e["name"] or e["variant"])
        else:
            s = "%s.<%s>" % (s, k)
    return s


def fmt_op(o):
    k = o["k"]
    if k in ("copy", "move"):
        return "%s %s" % (k, fmt_place(o["place"]))
    if k == "const":
        v = o.get("val")
        if o.get("fn"):
            return "fn:" + o["fn"]
        if isinstance(v, dict):
            if "int" in v:
                return "const %d" % v["int"]
            if "str" in v:
                return "const %r" % v["str"]
            if "bytes" in v:
                return "const b%r" % bytes(v["bytes"])
        return "const(%s)" % o.get("s")
    return "<%s>" % k


def fmt_rv(rv):
    k = rv["k"]
    if k == "use":
        return fmt_op(rv["op"])
    if k == "ref":
        return "&%s%s" % ("mut " if rv["mut"] else "", fmt_place(rv["place"]))
    if k == "rawptr":
        return "&raw %s" % fmt_place(rv["place"])
    if k == "bin":
        return "%s(%s, %s)" % (rv["op"], fmt_op(rv["l"]), fmt_op(rv["r"]))
    if k == "un":
        return "%s(%s)" % (rv["op"], fmt_op(rv["x"]))
    if k == "cast":
        return "%s as %s [%s]" % (fmt_op(rv["op"]), rv["ty"]["s"], rv["kind"])
    if k == "discr":
        return "discriminant(%s)" % fmt_place(rv["place"])
    if k == "agg":
        ops = ", ".join(fmt_op(o) for o in rv["ops"])
        if rv["ak"] == "adt":
            return "%s::%s(%s)" % (rv["adt"], rv["vname"], ops)
        if rv["ak"] == "closure":
            return "closure %s(%s)" % (rv["closure"], ops)
        return "%s(%s)" % (rv["ak"], ops)
    if k == "repeat":
        return "[%s; %s]" % (fmt_op(rv["op"]), rv["n"])
    return "<%s %s>" % (k, rv.get("s", ""))


def fmt_term(t):
    k = t["k"]
    if k == "goto":
        return "goto bb%d" % t["t"]
    if k == "switch":
        arms = ", ".join("%d: bb%d" % (v, b) for v, b in zip(t["vals"], t["targets"]))
        return "switchInt(%s) [%s, otherwise: bb%d]" % (fmt_op(t["op"]), arms, t["otherwise"])
    if k == "call":
        f = t["func"]
        name = f.get("path") or ("indirect " + fmt_op(f["indirect"]))
        if f.get("resolved") and f["resolved"] != f.get("path"):
            name += " => " + f["resolved"]
        return "%s = %s(%s) -> %s" % (
            fmt_place(t["dest"]), name, ", ".join(fmt_op(a) for a in t["args"]),
            "bb%d" % t["t"] if t["t"] is not None else "!")
    if k == "assert":
        m = t["msg"]
        return "assert(%s == %s, %s) -> bb%d" % (fmt_op(t["cond"]), t["expected"], m["kind"], t["t"])
    if k == "drop":
        return "drop(%s) -> bb%d" % (fmt_place(t["place"]), t["t"])
    return k


def fmt_fn(fn):
    lines = ["fn %s  [%s]  %s" % (fn.path, fn.kind, fn.span)]
    for i, l in enumerate(fn.body["locals"]):
        lines.append("  let _%d: %s%s" % (i, l["ty"]["s"], "  // " + l["name"] if l["name"] else ""))
    for i, b in enumerate(fn.blocks):
        lines.append("  bb%d%s:" % (i, " (cleanup)" if b["cleanup"] else ""))
        for s in b["stmts"]:
            if s["k"] == "assign":
                lines.append("    %s = %s   // %s" % (fmt_place(s["place"]), fmt_rv(s["rv"]), s["span"].split(":", 1)[1]))
            else:
                lines.append("    %s" % s)
        lines.append("    %s   // %s" % (fmt_term(b["term"]), b["term"]["span"].split(":", 1)[1]))
    return "\n".join(lines)
