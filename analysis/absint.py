"""Abstract interpreter over dumped MIR (engines E2 and E4 share it).

It is a *static* analysis: values are abstract (value sets with an open tail, symbolic
predicates, variant-refined enums, opaque TOP), control flow is followed disjunctively
(a set of abstract worlds per program point, joined by set union), loops are iterated to a
fixpoint over the finite abstract domain, and calls are either summarised by a rule-supplied
*event*, by a model of a std combinator, by context-sensitive inlining of the callee's MIR,
or treated as opaque (result TOP, `&mut` arguments havocked).

World  = (store, st)   store: {(depth, local): Value}    st: rule-defined hashable state (DFA state…)
Value  = ('top',)
       | ('int', frozenset, tail)         tail None | T  (also every integer >= T)
       | ('pred', target, full, tset, fset)   bool that is true iff the int at `target` lies in tset
       | ('adt', path, variant_idx, fields)   struct (variant 0) or enum value with a known variant
       | ('tuple', fields) | ('closure', def, captures) | ('fn', def)
       | ('sp', ((i, v), ...))            partially known aggregate (sparse fields)
       | ('arr', ((i, v), ...), default)  array with per-index values
       | ('ref', target)                  target = (depth, local, projs)  or ('const', Value)
       | ('cstr', bytes)                  reference to constant bytes (&str / &[u8] constant)
       | ('sliceref', target, start, len) reference to a sub-range of an array cell
       | ('sym', name)                    opaque atom with identity
"""
from . import facts as F

TOP = ('top',)
UNIT = ('tuple', ())
WIDEN_AT = 4          # non-u8 arithmetic results >= this collapse into the open tail
MAX_SET = 300


class Inconclusive(Exception):
    """MIR the interpreter cannot model inside an anchored function (fail closed)."""


# ---------------------------------------------------------------------------------------------
# integers


def mk_int(vals, tail=None):
    vals = frozenset(vals)
    if tail is not None:
        vals = frozenset(v for v in vals if v < tail)
        # absorb adjacent values into the tail
        while (tail - 1) in vals:
            tail -= 1
            vals = vals - {tail}
    return ('int', vals, tail)


def const_int(n):
    return ('int', frozenset((n,)), None)


TRUE = const_int(1)
FALSE = const_int(0)
BOOL = ('int', frozenset((0, 1)), None)
U8_ANY = ('int', frozenset(range(256)), None)
UINT_ANY = ('int', frozenset(), 0)


def is_int(v):
    return v[0] == 'int'


def int_singleton(v):
    if v[0] == 'int' and v[2] is None and len(v[1]) == 1:
        return next(iter(v[1]))
    return None


def int_is_empty(v):
    return v[0] == 'int' and not v[1] and v[2] is None


def int_contains(v, n):
    return n in v[1] or (v[2] is not None and n >= v[2])


def int_union(a, b):
    t = None
    if a[2] is not None and b[2] is not None:
        t = min(a[2], b[2])
    elif a[2] is not None:
        t = a[2]
    elif b[2] is not None:
        t = b[2]
    return mk_int(a[1] | b[1], t)


def int_minus_vals(v, vals):
    """v without the finite set of values `vals` (tail is kept; values inside the tail are pulled out)."""
    s = set(v[1])
    t = v[2]
    for n in sorted(vals):
        if n in s:
            s.discard(n)
        elif t is not None and n >= t:
            # expand tail up to n
            for k in range(t, n):
                s.add(k)
            t = n + 1
    return mk_int(s, t)


def ty_int_range(ty):
    if ty is None:
        return None
    k = ty.get('k')
    if k == 'bool':
        return (0, 1)
    if k == 'char':
        return (0, 0x10FFFF)
    if k == 'int':
        w = ty['w']
        if ty['signed']:
            return (-(1 << (w - 1)), (1 << (w - 1)) - 1)
        return (0, (1 << w) - 1)
    return None


def place_index(w, depth, place):
    """abstract value of the index a place projection uses: a local (`a[i]`), a constant offset from the start (slice
    pattern `[x, ..]`), or ('fromend', k) for a slice pattern counted from the end (`[.., x]`); None if there is none"""
    for e in place['p']:
        if e['k'] == 'index':
            return w.store.get((depth, e['l']), TOP)
        if e['k'] == 'cindex':
            if e.get('from_end'):
                return ('fromend', e['offset'])
            return const_int(e['offset'])
    return None


def top_of_type(ty):
    r = ty_int_range(ty)
    if r is None:
        return TOP
    lo, hi = r
    if hi - lo < MAX_SET:
        return mk_int(range(lo, hi + 1))
    if lo == 0:
        return UINT_ANY
    return TOP


def clamp_to_type(v, ty, widen=True):
    """Drop values outside the type's range (those paths panic / cannot exist) and widen wide ints."""
    if v[0] != 'int':
        return v
    r = ty_int_range(ty)
    if r is None:
        return v
    lo, hi = r
    vals = frozenset(x for x in v[1] if lo <= x <= hi)
    tail = v[2]
    if tail is not None and tail > hi:
        tail = None
    if tail is not None and hi - lo < MAX_SET:
        vals = vals | frozenset(range(max(tail, lo), hi + 1))
        tail = None
    if widen and hi - lo >= MAX_SET:
        big = [x for x in vals if x >= WIDEN_AT]
        if big or (tail is not None and tail > WIDEN_AT):
            tail = WIDEN_AT if tail is None else min(tail, WIDEN_AT)
    return mk_int(vals, tail)


_ARITH = {
    'Add': lambda a, b: a + b,
    'Sub': lambda a, b: a - b,
    'Mul': lambda a, b: a * b,
    'BitAnd': lambda a, b: a & b,
    'BitOr': lambda a, b: a | b,
    'BitXor': lambda a, b: a ^ b,
    'Shl': lambda a, b: a << b if 0 <= b < 128 else 0,
    'Shr': lambda a, b: a >> b if 0 <= b < 128 else 0,
}
_CMP = {
    'Eq': lambda a, b: a == b,
    'Ne': lambda a, b: a != b,
    'Lt': lambda a, b: a < b,
    'Le': lambda a, b: a <= b,
    'Gt': lambda a, b: a > b,
    'Ge': lambda a, b: a >= b,
}


def int_arith(op, a, b, ty):
    """Abstract arithmetic on two int values; result clamped to `ty` when given."""
    if a[0] != 'int' or b[0] != 'int':
        return top_of_type(ty) if ty else TOP
    base = op.replace('WithOverflow', '').replace('Unchecked', '')
    f = _ARITH.get(base)
    if f is None:
        return top_of_type(ty) if ty else TOP
    if a[2] is None and b[2] is None:
        if len(a[1]) * len(b[1]) > 70000:
            return top_of_type(ty) if ty else TOP
        vals = {f(x, y) for x in a[1] for y in b[1]}
        return clamp_to_type(mk_int(vals), ty, widen=(base in ('Add', 'Sub', 'Mul', 'Shl')))
    # a tail is involved: only monotone cases are kept
    if base == 'Add' and b[2] is None and b[1]:
        lo_b = min(b[1])
        vals = {x + y for x in a[1] for y in b[1]}
        t = (a[2] + lo_b) if a[2] is not None else None
        return clamp_to_type(mk_int(vals, t), ty)
    if base == 'Add' and a[2] is None and a[1]:
        return int_arith(op, b, a, ty)
    if base == 'Sub' and b[2] is None and b[1] and a[2] is not None:
        hi_b = max(b[1])
        vals = {x - y for x in a[1] for y in b[1]}
        t = a[2] - hi_b
        # values between t and a[2]-min(b) are all possible
        return clamp_to_type(mk_int(vals, t), ty)
    return top_of_type(ty) if ty else TOP


def int_split_cmp(op, a, c):
    """Split int value `a` by comparison with constant c: returns (true_part, false_part)."""
    f = _CMP[op]
    tvals = frozenset(x for x in a[1] if f(x, c))
    fvals = a[1] - tvals
    ttail = ftail = None
    if a[2] is not None:
        T = a[2]
        # the tail [T, inf): decide which part satisfies
        if op in ('Ge', 'Gt'):
            bound = c if op == 'Ge' else c + 1
            if bound <= T:
                ttail = T
            else:
                ttail = bound
                fvals = fvals | frozenset(range(T, bound))
        elif op in ('Lt', 'Le'):
            bound = c if op == 'Lt' else c + 1  # values < bound satisfy
            if bound <= T:
                ftail = T
            else:
                ftail = bound
                tvals = tvals | frozenset(range(T, bound))
        elif op == 'Eq':
            if c >= T:
                tvals = tvals | {c}
                ftail = T  # over-approximation: c stays in the false tail as well; pull it out
                fv = int_minus_vals(('int', fvals, T), {c})
                return mk_int(tvals), fv
            ftail = T
        elif op == 'Ne':
            if c >= T:
                fvals = fvals | {c}
                tv = int_minus_vals(('int', tvals, T), {c})
                return tv, mk_int(fvals)
            ttail = T
    return mk_int(tvals, ttail), mk_int(fvals, ftail)


# ---------------------------------------------------------------------------------------------
# world


class World:
    __slots__ = ('store', 'st', '_key')

    def __init__(self, store, st):
        self.store = store
        self.st = st
        self._key = None

    def key(self):
        if self._key is None:
            self._key = (frozenset(self.store.items()), self.st)
        return self._key

    def set(self, cell, val):
        s = dict(self.store)
        s[cell] = val
        return World(s, self.st)

    def kill(self, cell):
        if cell not in self.store:
            return self
        s = dict(self.store)
        del s[cell]
        return World(s, self.st)

    def with_st(self, st):
        if st == self.st:
            return self
        return World(self.store, st)

    def drop_frame(self, depth):
        s = {k: v for k, v in self.store.items() if k[0] != depth}
        return World(s, self.st)


# known extern enums: path -> [(variant name, n fields)]
EXTERN_ENUMS = {
    'core::option::Option': [('None', 0), ('Some', 1)],
    'core::result::Result': [('Ok', 1), ('Err', 1)],
    'core::ops::control_flow::ControlFlow': [('Continue', 1), ('Break', 1)],
    'core::ops::range::Bound': [('Included', 1), ('Excluded', 1), ('Unbounded', 0)],
    'core::cmp::Ordering': [('Less', 0), ('Equal', 0), ('Greater', 0)],
}
OPTION = 'core::option::Option'
RESULT = 'core::result::Result'
CFLOW = 'core::ops::control_flow::ControlFlow'


def none():
    return ('adt', OPTION, 0, ())


def some(v):
    return ('adt', OPTION, 1, (v,))


def ok(v=UNIT):
    return ('adt', RESULT, 0, (v,))


def err(v=TOP):
    return ('adt', RESULT, 1, (v,))


class CallInfo:
    """A call site as seen by rules."""
    __slots__ = ('fn', 'bb', 'term', 'path', 'npath', 'name', 'trait', 'resolved', 'nresolved', 'gargs',
                 'span', 'dest_ty', 'arg_tys', 'func', 'depth', 'args')

    def __init__(self, fn, bb, term, depth):
        f = term['func']
        self.fn = fn
        self.bb = bb
        self.term = term
        self.func = f
        self.path = f.get('path')
        self.npath = F.norm_path(self.path) if self.path else None
        self.name = f.get('name')
        self.trait = f.get('trait')
        self.resolved = f.get('resolved')
        self.nresolved = F.norm_path(self.resolved) if self.resolved else None
        self.gargs = f.get('gargs') or []
        self.span = term['span']
        self.dest_ty = term.get('dest_ty')
        self.arg_tys = term.get('arg_tys') or []
        self.depth = depth

    def site(self):
        """Stable key of the call site: (caller, callee, ordinal among the caller's calls of that callee)."""
        n = 0
        for i, b in enumerate(self.fn.blocks):
            t = b['term']
            if t['k'] == 'call' and t['func'].get('path') == self.path:
                if i == self.bb:
                    break
                n += 1
        return "%s -> %s #%d" % (self.fn.npath, self.npath, n)

    def __repr__(self):
        return "<call %s at %s>" % (self.npath, self.span)

    def where(self, I):
        """(site, span) attributed to the outermost transparent wrapper call if inside one"""
        if I.ctx_site is not None:
            return I.ctx_site
        return (self.site(), self.span)


def _place_uses(pl, out):
    out.add(pl['l'])
    for e in pl['p']:
        if e['k'] == 'index':
            out.add(e['l'])


def _op_uses(o, out):
    if o.get('k') in ('copy', 'move'):
        _place_uses(o['place'], out)


def _rv_uses(rv, out, borrowed):
    k = rv['k']
    if k in ('use', 'cast', 'repeat'):
        _op_uses(rv['op'], out)
    elif k in ('ref', 'rawptr'):
        _place_uses(rv['place'], out)
        if not any(e['k'] == 'deref' for e in rv['place']['p']):
            borrowed.add(rv['place']['l'])
    elif k == 'bin':
        _op_uses(rv['l'], out)
        _op_uses(rv['r'], out)
    elif k == 'un':
        _op_uses(rv['x'], out)
    elif k == 'discr':
        _place_uses(rv['place'], out)
    elif k == 'agg':
        for o in rv['ops']:
            _op_uses(o, out)


_LIVE_CACHE = {}


def liveness(fn):
    """-> (live_in: list[set(local)], borrowed: set(local)) by backward dataflow over the MIR CFG."""
    key = id(fn.body)
    if key in _LIVE_CACHE:
        return _LIVE_CACHE[key]
    blocks = fn.blocks
    n = len(blocks)
    use = [set() for _ in range(n)]
    defs = [set() for _ in range(n)]
    borrowed = set()
    succ = [[] for _ in range(n)]
    for i, b in enumerate(blocks):
        u, d = set(), set()

        def add_uses(xs):
            for x in xs:
                if x not in d:
                    u.add(x)
        for s in b['stmts']:
            if s['k'] == 'assign':
                tmp = set()
                _rv_uses(s['rv'], tmp, borrowed)
                if s['place']['p']:
                    _place_uses(s['place'], tmp)
                    add_uses(tmp)
                else:
                    add_uses(tmp)
                    d.add(s['place']['l'])
            elif s['k'] == 'setdiscr':
                tmp = set()
                _place_uses(s['place'], tmp)
                add_uses(tmp)
        t = b['term']
        k = t['k']
        tmp = set()
        if k == 'switch':
            _op_uses(t['op'], tmp)
            succ[i] = list(t['targets']) + [t['otherwise']]
        elif k == 'call':
            for a in t['args']:
                _op_uses(a, tmp)
            if t['func'].get('indirect'):
                _op_uses(t['func']['indirect'], tmp)
            if t['dest']['p']:
                _place_uses(t['dest'], tmp)
            if t['t'] is not None:
                succ[i] = [t['t']]
        elif k == 'assert':
            _op_uses(t['cond'], tmp)
            succ[i] = [t['t']]
        elif k == 'drop':
            _place_uses(t['place'], tmp)
            succ[i] = [t['t']]
        elif k == 'goto':
            succ[i] = [t['t']]
        elif k == 'return':
            tmp.add(0)
        add_uses(tmp)
        if k == 'call' and not t['dest']['p']:
            d.add(t['dest']['l'])
        use[i], defs[i] = u, d
    live_in = [set() for _ in range(n)]
    changed = True
    while changed:
        changed = False
        for i in range(n - 1, -1, -1):
            out = set()
            for sx in succ[i]:
                out |= live_in[sx]
            new = use[i] | (out - defs[i])
            if new != live_in[i]:
                live_in[i] = new
                changed = True
    _LIVE_CACHE[key] = (live_in, borrowed)
    return _LIVE_CACHE[key]


class Interp:
    def __init__(self, crates, rule=None, max_depth=40, max_worlds=200000):
        """crates: list of facts.Crate searched in order for function bodies."""
        self.crates = crates
        self.rule = rule
        self.max_depth = max_depth
        self.max_worlds = max_worlds
        self.by_path = {}
        self.adts = {}
        for c in crates:
            for f in c.fns:
                self.by_path.setdefault(F.raw_key(f.path), f)
            for p, a in c.adts.items():
                self.adts.setdefault(F.norm_path(p), a)
        self.stats = {'worlds': 0, 'calls_inlined': 0, 'calls_opaque': 0, 'calls_model': 0, 'calls_event': 0,
                      'fns_entered': set(), 'opaque_callees': set()}
        self.memo = {}
        self._promoted = {}
        self._fn = None
        self._budget = 0
        self.ctx_site = None     # (site, span) of the outermost call into a rule-declared transparent wrapper
        from . import models
        self.models = models.MODELS

    # ---- ADT helpers ----
    def adt_variants(self, npath):
        if npath in EXTERN_ENUMS:
            return [(n, k, i) for i, (n, k) in enumerate(EXTERN_ENUMS[npath])]
        a = self.adts.get(npath)
        if a is None:
            return None
        return [(v['name'], len(v['fields']), v['discr']) for v in a['variants']]

    # Field roles of the anchored types as (name at the pinned commit, type).  The rules name fields by these role names;
    # when a (private) field was renamed, the role is re-found by its type and, among fields of one type, by declaration
    # order.  A role that cannot be re-found uniquely is an anchor failure (Inconclusive), never a guess.
    PINNED_FIELDS = {
        'editor::Editor': [('buffer', 'B'), ('cursor', 'usize'), ('valid', 'usize')],
        'history::History': [('buffer', 'B'), ('cursor', 'core::option::Option<usize>'), ('used', 'usize')],
        'writer::Writer': [('last_bytes', '[u8; 2]'), ('dirty', 'bool'), ('writer', '&mut W')],
        'autocomplete::Autocompletion': [('autocompleted', 'core::option::Option<usize>'), ('buffer', '&mut [u8]'), ('partial', 'bool')],
        'cli::Cli': [('editor', 'core::option::Option<editor::Editor<CommandBuffer>>'), ('history', 'history::History<HistoryBuffer>'),
                     ('input_generator', 'core::option::Option<input::InputGenerator>'), ('prompt', '&str'), ('writer', 'W')],
        'utf8::Utf8Accum': [('buffer', '[u8; 4]'), ('expected', 'u8'), ('partial', 'u8')],
        'token::Tokens': [('empty', 'bool'), ('tokens', '&str')],
        'token::TokensIter': [('tokens', '&str'), ('empty', 'bool')],
        'arguments::ArgsIter': [('values_only', 'bool'), ('leftover', '&str'), ('tokens', 'token::TokensIter')],
        'arguments::ArgList': [('tokens', 'token::Tokens')],
        'command::RawCommand': [('name', '&str'), ('args', 'arguments::ArgList')],
        'input::InputGenerator': [('flags', 'input::Flags'), ('last_byte', 'u8'), ('utf8', 'utf8::Utf8Accum')],
    }

    @staticmethod
    def _ty_key(s_):
        import re as _re
        s_ = _re.sub(r"'\w+ ?", '', s_ or '')          # lifetimes
        s_ = _re.sub(r"<'?_?>", '', s_)
        s_ = _re.sub(r'<>', '', s_.replace("<, ", "<").replace("<,", "<"))
        return s_.replace('embedded_cli::', '')

    def resolve_field(self, npath, name, variant=0):
        """index of the field playing role `name` in ADT `npath` (see PINNED_FIELDS)"""
        a = self.adts.get(npath)
        if a is None:
            raise Inconclusive("unknown ADT " + npath)
        fs = a['variants'][variant]['fields']
        for i, f in enumerate(fs):
            if f['name'] == name:
                return i
        pinned = self.PINNED_FIELDS.get(npath)
        if not pinned or name not in dict(pinned):
            return None
        want = dict(pinned)[name]
        norm = lambda t: self._ty_key(t).replace(' ', '')
        same_roles = [n for n, t in pinned if norm(t) == norm(want)]
        present = {f['name'] for f in fs}
        cands = [i for i, f in enumerate(fs) if norm(f['ty'].get('s', '')).startswith(norm(want)) and
                 (f['name'] not in dict(pinned) or f['name'] == name)]
        missing = [n for n in same_roles if n not in present]
        if len(cands) == len(missing) and name in missing:
            return cands[missing.index(name)]
        return None

    def make_adt(self, npath, variant=0, fields=None, **named):
        """Build a struct/enum value from ADT facts; unnamed fields are TOP."""
        a = self.adts.get(npath)
        if a is None:
            raise Inconclusive("unknown ADT " + npath)
        v = a['variants'][variant]
        vals = [TOP] * len(v['fields'])
        if fields:
            for i, x in enumerate(fields):
                vals[i] = x
        for k, x in named.items():
            i = self.resolve_field(npath, k, variant)
            if i is None:
                raise Inconclusive("ADT %s has no field %s (nor a field that can take its place by type)" % (npath, k))
            vals[i] = x
        return ('adt', npath, variant, tuple(vals))

    def field_index(self, npath, name, variant=0):
        a = self.adts.get(npath)
        if a is None:
            raise Inconclusive("unknown ADT " + npath)
        i = self.resolve_field(npath, name, variant)
        if i is not None:
            return i
        raise Inconclusive("ADT %s has no field %s (nor a field that can take its place by type)" % (npath, name))

    def variant_index(self, npath, name):
        vs = self.adt_variants(npath)
        if vs is None:
            raise Inconclusive("unknown ADT " + npath)
        for i, (n, _, _) in enumerate(vs):
            if n == name:
                return i
        raise Inconclusive("ADT %s has no variant %s" % (npath, name))

    # ---- store access ----
    def resolve(self, w, depth, place):
        """place -> target (depth, local, projs) following derefs; None if it leads through an unknown ref."""
        cur = (depth, place['l'], ())
        for e in place['p']:
            k = e['k']
            if k == 'deref':
                v = self.read(w, cur)
                if v[0] == 'ref':
                    t = v[1]
                    if t[0] == 'const':
                        cur = ('const', t[1], ())
                    else:
                        cur = t
                elif v[0] == 'top':
                    return None
                else:
                    # reference-like abstract values (constant strings, slices, rule-defined string atoms):
                    # the referent is denoted by the same abstract value
                    cur = ('val', v, ())
            elif k == 'field':
                cur = cur[:2] + (cur[2] + (('f', e['i']),),)
            elif k == 'index':
                iv = w.store.get((depth, e['l']), TOP)
                n = int_singleton(iv)
                cur = cur[:2] + (cur[2] + ((('i', n) if n is not None else ('i*', iv)),),)
            elif k == 'cindex':
                if e['from_end']:
                    return None
                cur = cur[:2] + (cur[2] + (('i', e['offset']),),)
            elif k == 'downcast':
                cur = cur[:2] + (cur[2] + (('dc', e['variant']),),)
            elif k in ('opaquecast',):
                pass
            else:
                return None
        return cur

    def read(self, w, target):
        if target is None:
            return TOP
        if target[0] == 'const' or target[0] == 'val':
            v = target[1]
        else:
            v = w.store.get((target[0], target[1]), TOP)
        for p in (target[2] if len(target) > 2 else ()):
            v = self._proj_read(w, v, p)
        return v

    def _proj_read(self, w, v, p):
        k = p[0]
        if k == 'dc':
            return v
        if k == 'f':
            i = p[1]
            if v[0] == 'adt':
                return v[3][i] if i < len(v[3]) else TOP
            if v[0] == 'tuple':
                return v[1][i] if i < len(v[1]) else TOP
            if v[0] == 'closure':
                return v[2][i] if i < len(v[2]) else TOP
            if v[0] == 'sp':
                for j, x in v[1]:
                    if j == i:
                        return x
                return TOP
            if v[0] == 'int' and i == 0:
                # a struct constant with scalar ABI (nested single-scalar newtype): its field is the scalar
                return v
            return TOP
        if k == 'i':
            n = p[1]
            if v[0] == 'arr':
                for j, x in v[1]:
                    if j == n:
                        return x
                return v[2]
            if v[0] == 'cstr':
                return const_int(v[1][n]) if 0 <= n < len(v[1]) else TOP
            if v[0] == 'sliceref':
                st = int_singleton(v[2])
                if st is not None:
                    return self.read(w, v[1][:2] + (v[1][2] + (('i', st + n),),))
                return TOP
            return TOP
        if k == 'i*':
            iv = p[1]
            if v[0] == 'arr' and iv[0] == 'int' and iv[2] is None and iv[1]:
                out = None
                for n in iv[1]:
                    x = self._proj_read(w, v, ('i', n))
                    out = x if out is None else join(out, x)
                return out
            if v[0] == 'cstr' and iv[0] == 'int' and iv[2] is None and iv[1]:
                return mk_int(v[1][n] for n in iv[1] if 0 <= n < len(v[1]))
            return TOP
        return TOP

    def write(self, w, target, val):
        """Functional update of the store at `target`. Unknown targets are ignored (documented)."""
        if target is None or target[0] in ('const', 'val'):
            return w
        cell = (target[0], target[1])
        old = w.store.get(cell, TOP)
        new = self._proj_write(old, target[2], val)
        return w.set(cell, new)

    def _proj_write(self, old, projs, val):
        if not projs:
            return val
        p = projs[0]
        rest = projs[1:]
        k = p[0]
        if k == 'dc':
            # writing into a variant's payload of an unknown enum: cannot materialise -> keep TOP
            if old[0] == 'adt':
                return self._proj_write(old, rest, val)
            return TOP
        if k == 'f':
            i = p[1]
            if old[0] == 'adt':
                fs = list(old[3])
                while len(fs) <= i:
                    fs.append(TOP)
                fs[i] = self._proj_write(fs[i], rest, val)
                return ('adt', old[1], old[2], tuple(fs))
            if old[0] == 'tuple':
                fs = list(old[1])
                while len(fs) <= i:
                    fs.append(TOP)
                fs[i] = self._proj_write(fs[i], rest, val)
                return ('tuple', tuple(fs))
            if old[0] == 'closure':
                fs = list(old[2])
                fs[i] = self._proj_write(fs[i], rest, val)
                return ('closure', old[1], tuple(fs))
            d = dict(old[1]) if old[0] == 'sp' else {}
            d[i] = self._proj_write(d.get(i, TOP), rest, val)
            return ('sp', tuple(sorted(d.items())))
        if k == 'i':
            n = p[1]
            if old[0] == 'arr':
                d = dict(old[1])
                default = old[2]
            else:
                d = {}
                default = TOP
            d[n] = self._proj_write(d.get(n, default), rest, val)
            return ('arr', tuple(sorted(d.items())), default)
        if k == 'i*':
            iv = p[1]
            if iv[0] == 'int' and iv[2] is None and iv[1] and len(iv[1]) <= 16:
                # weak update of each possible index
                cur = old
                for n in iv[1]:
                    oldv = self._proj_read(None, cur, ('i', n)) if cur[0] == 'arr' else TOP
                    cur = self._proj_write(cur, (('i', n),) + rest, join(oldv, val) if not rest else val)
                return cur
            return TOP
        return TOP

    # ---- operands / rvalues ----
    def eval_promoted(self, fn, n):
        """Value of promoted constant #n of `fn` (a tiny straight-line body), as a reference to a constant."""
        key = (fn.path, n)
        if key in self._promoted:
            return self._promoted[key]
        self._promoted[key] = TOP
        if n >= len(fn.promoted):
            return TOP

        class P:
            pass
        pf = P()
        pf.path = fn.path + '::promoted[%d]' % n
        pf.npath = fn.npath + '::promoted[%d]' % n
        pf.body = fn.promoted[n]
        pf.blocks = pf.body['blocks']
        pf.promoted = []
        depth = 9000
        work = [(0, World({}, None))]
        result = TOP
        steps = 0
        while work and steps < 200:
            steps += 1
            bb, w = work.pop()
            for nbb, nw in self.step_block(pf, bb, w, depth):
                if nbb is None:
                    rv = nw.store.get((depth, 0), TOP)
                    if rv[0] == 'ref' and rv[1][0] == depth:
                        rv = ('ref', ('const', self.read(nw, rv[1])))
                    result = rv
                else:
                    work.append((nbb, nw))
        self._promoted[key] = result
        return result

    def const_value(self, c):
        if c.get('val') is None and not c.get('fn') and 'promoted[' in c.get('s', '') and self._fn is not None:
            try:
                n = int(c['s'].rsplit('promoted[', 1)[1].split(']')[0])
                return self.eval_promoted(self._fn, n)
            except (ValueError, IndexError):
                return TOP
        if c.get('fn'):
            ty = c['ty']
            if ty.get('k') == 'closure':
                return ('closure', c['fn'], ())
            return ('fn', c['fn'])
        v = c.get('val')
        ty = c['ty']
        if isinstance(v, dict):
            if 'int' in v:
                if ty.get('k') == 'adt':
                    w_ = self._wrap_scalar(ty, const_int(v['int']))
                    return w_ if w_ != TOP else const_int(v['int'])
                return const_int(v['int'])
            if 'bytes' in v and ty.get('k') == 'ref':
                return ('cstr', bytes(v['bytes']))
            if 'bytes' in v:
                return ('arr', tuple((i, const_int(b)) for i, b in enumerate(v['bytes'])), TOP)
            if 'arr' in v:
                elems = []
                for e in v['arr']:
                    if isinstance(e, dict) and 'bytes' in e:
                        elems.append(('cstr', bytes(e['bytes'])))
                    elif isinstance(e, dict) and 'int' in e:
                        elems.append(const_int(e['int']))
                    else:
                        elems.append(TOP)
                arr = ('arr', tuple(enumerate(elems)), TOP)
                if ty.get('k') == 'ref':
                    return ('ref', ('const', arr))
                return arr
            if 'zst' in v:
                if ty.get('k') == 'tuple':
                    return UNIT
                if ty.get('k') == 'adt':
                    return ('adt', F.norm_path(ty['path']), 0, ())
                return TOP
        if ty.get('k') == 'tuple' and not ty['of']:
            return UNIT
        return TOP

    def _wrap_scalar(self, ty, val, depth=0):
        """A scalar constant of a newtype-like struct (e.g. bitflags constants): rebuild the nesting from ADT facts."""
        if ty.get('k') != 'adt' or depth > 4:
            return val
        np_ = F.norm_path(ty['path'])
        a = self.adts.get(np_)
        if a is not None and a['kind'] == 'struct' and len(a['variants'][0]['fields']) == 1 \
                and a['variants'][0]['fields'][0]['ty'].get('k') not in ('adt', 'int', 'bool', 'char'):
            return val      # field type not resolvable here (alias): keep the scalar, field reads see through it
        if a is None or a['kind'] != 'struct' or len(a['variants'][0]['fields']) != 1:
            if a is not None and a['kind'] == 'enum':
                n = int_singleton(val)
                for idx, v in enumerate(a['variants']):
                    if v['discr'] == n and not v['fields']:
                        return ('adt', np_, idx, ())
            return TOP
        inner = self._wrap_scalar(a['variants'][0]['fields'][0]['ty'], val, depth + 1)
        return ('adt', np_, 0, (inner,))

    def operand(self, w, depth, o):
        k = o['k']
        if k in ('copy', 'move'):
            t = self.resolve(w, depth, o['place'])
            return self.read(w, t)
        if k == 'const':
            return self.const_value(o)
        return TOP

    def operand_target(self, w, depth, o):
        if o['k'] in ('copy', 'move'):
            return self.resolve(w, depth, o['place'])
        return None

    def eval_rvalue(self, w, depth, rv, fn):
        """-> list of (world, value)"""
        k = rv['k']
        if k == 'use':
            if self.rule is not None and hasattr(self.rule, 'on_load') and rv['op']['k'] in ('copy', 'move') \
                    and any(e['k'] in ('index', 'cindex') for e in rv['op']['place']['p']):
                r = self.rule.on_load(self, w, depth, rv['op']['place'])
                if r is not None:
                    return r
            return [(w, self.operand(w, depth, rv['op']))]
        if k == 'ref' or k == 'rawptr':
            t = self.resolve(w, depth, rv['place'])
            if t is None:
                return [(w, TOP)]
            if t[0] == 'val' and not t[2]:
                return [(w, t[1])]
            if t[0] == 'const' and not t[2]:
                return [(w, ('ref', ('const', t[1])))]
            # `&*x` where x is a cstr etc. -> the same fat reference
            v = None
            if rv['place']['p'] and rv['place']['p'][-1]['k'] == 'deref':
                inner = dict(rv['place'])
                inner['p'] = inner['p'][:-1]
                tv = self.read(w, self.resolve(w, depth, inner))
                if tv[0] != 'adt' and tv[0] != 'tuple':
                    v = tv
            return [(w, v if v is not None else ('ref', t))]
        if k == 'bin':
            return self.eval_bin(w, depth, rv)
        if k == 'un':
            x = self.operand(w, depth, rv['x'])
            op = rv['op']
            if op == 'Not':
                if x[0] == 'symcmp':
                    neg = {'Eq': 'Ne', 'Ne': 'Eq', 'Lt': 'Ge', 'Ge': 'Lt', 'Gt': 'Le', 'Le': 'Gt'}
                    return [(w, ('symcmp', neg[x[1]], x[2], x[3]))]
                if x[0] == 'pred':
                    return [(w, ('pred', x[1], x[2], x[4], x[3]))]
                if x[0] == 'int' and rv['xty'].get('k') == 'bool':
                    return [(w, mk_int(1 - b for b in x[1]))]
                if x[0] == 'int' and x[2] is None:
                    r = ty_int_range(rv['xty'])
                    if r and r[0] == 0:
                        return [(w, mk_int(r[1] ^ b for b in x[1]))]
                return [(w, top_of_type(rv['xty']))]
            if op == 'PtrMetadata':
                if self.rule is not None and hasattr(self.rule, 'on_len'):
                    r = self.rule.on_len(self, w, x)
                    if r is not None:
                        return [(w, r)]
                if x[0] == 'slc':
                    return [(w, x[2])]
                if x[0] == 'cstr':
                    return [(w, const_int(len(x[1])))]
                if x[0] == 'sliceref':
                    return [(w, x[3])]
                return [(w, UINT_ANY)]
            if op == 'Neg' and x[0] == 'int' and x[2] is None:
                return [(w, mk_int(-b for b in x[1]))]
            return [(w, TOP)]
        if k == 'cast':
            x = self.operand(w, depth, rv['op'])
            kind = rv['kind']
            if x[0] == 'bv' and self.rule is not None and hasattr(self.rule, 'eval_cast'):
                r = self.rule.eval_cast(self, w, kind, x, rv.get('from'), rv['ty'])
                if r is not None:
                    return [(w, r)]
            if kind == 'IntToInt':
                if is_symbolic(x):
                    fr, to = ty_int_range(rv.get('from')), ty_int_range(rv['ty'])
                    if fr and to and to[0] <= fr[0] and to[1] >= fr[1]:
                        return [(w, x)]
                    return [(w, top_of_type(rv['ty']))]
                if x[0] == 'pred':
                    x = BOOL
                if x[0] == 'int':
                    r = ty_int_range(rv['ty'])
                    if r and x[2] is None:
                        lo, hi = r
                        if lo == 0:
                            return [(w, mk_int((b & hi) for b in x[1]))]
                    if r and x[2] is not None:
                        if r[1] >= (1 << 31):
                            return [(w, x)]
                        return [(w, top_of_type(rv['ty']))]
                return [(w, top_of_type(rv['ty']))]
            if kind == 'PointerCoercion(Unsize)' and x[0] == 'ref' and x[1][0] not in ('const', 'val'):
                ft = rv.get('from') or {}
                while ft.get('k') == 'ref':
                    ft = ft['to']
                if ft.get('k') == 'array' and ft.get('len') is not None:
                    # &[T; N] -> &[T]: a slice over the whole array cell, of known length
                    return [(w, ('sliceref', x[1], const_int(0), const_int(ft['len'])))]
            if kind.startswith('PointerCoercion') or kind in ('PtrToPtr', 'Transmute'):
                # unsizing &[u8; N] -> &[u8], &mut T -> *mut T, str <-> [u8] transmutes: same abstract reference
                return [(w, x)]
            return [(w, top_of_type(rv['ty']))]
        if k == 'discr':
            return self.eval_discr(w, depth, rv)
        if k == 'agg':
            ops = tuple(self.operand(w, depth, o) for o in rv['ops'])
            ak = rv['ak']
            if ak == 'tuple':
                return [(w, ('tuple', ops))]
            if ak == 'adt':
                return [(w, ('adt', F.norm_path(rv['adt']), rv['variant'], ops))]
            if ak == 'closure':
                return [(w, ('closure', rv['closure'], ops))]
            if ak == 'array':
                return [(w, ('arr', tuple(enumerate(ops)), TOP))]
            return [(w, TOP)]
        if k == 'repeat':
            x = self.operand(w, depth, rv['op'])
            return [(w, ('arr', (), x))]
        return [(w, TOP)]

    def eval_bin(self, w, depth, rv):
        op = rv['op']
        a = self.operand(w, depth, rv['l'])
        b = self.operand(w, depth, rv['r'])
        lty = rv.get('lty')
        if self.rule is not None and hasattr(self.rule, 'eval_bin') and (a[0] == 'bv' or b[0] == 'bv'):
            r = self.rule.eval_bin(self, w, op, a, b, lty)
            if r is not None:
                if op.endswith('WithOverflow'):
                    return [(w, ('tuple', (r, FALSE)))]
                return [(w, r)]
        if a[0] == 'pred':
            a = BOOL
        if b[0] == 'pred':
            b = BOOL
        if op in _CMP and (is_symbolic(a) or is_symbolic(b)) \
                and self.rule is not None and hasattr(self.rule, 'on_symbranch'):
            return [(w, ('symcmp', op, a, b))]
        if op in _CMP:
            if a[0] == 'int' and b[0] == 'int':
                cb = int_singleton(b)
                ca = int_singleton(a)
                if cb is not None:
                    tpart, fpart = int_split_cmp(op, a, cb)
                    if int_is_empty(fpart):
                        return [(w, TRUE)]
                    if int_is_empty(tpart):
                        return [(w, FALSE)]
                    t = self.operand_target(w, depth, rv['l'])
                    if t is not None:
                        return [(w, ('pred', t, a, tpart, fpart))]
                    return [(w, BOOL)]
                if ca is not None:
                    flip = {'Lt': 'Gt', 'Le': 'Ge', 'Gt': 'Lt', 'Ge': 'Le', 'Eq': 'Eq', 'Ne': 'Ne'}[op]
                    tpart, fpart = int_split_cmp(flip, b, ca)
                    if int_is_empty(fpart):
                        return [(w, TRUE)]
                    if int_is_empty(tpart):
                        return [(w, FALSE)]
                    t = self.operand_target(w, depth, rv['r'])
                    if t is not None:
                        return [(w, ('pred', t, b, tpart, fpart))]
                    return [(w, BOOL)]
                # two non-constant finite sets: decide if all pairs agree
                if a[2] is None and b[2] is None and a[1] and b[1] and len(a[1]) * len(b[1]) <= 70000:
                    res = {_CMP[op](x, y) for x in a[1] for y in b[1]}
                    if res == {True}:
                        return [(w, TRUE)]
                    if res == {False}:
                        return [(w, FALSE)]
            return [(w, BOOL)]
        base_op = op.replace('WithOverflow', '').replace('Unchecked', '')
        if (is_symbolic(a) or is_symbolic(b)) and base_op in ('Add', 'Sub', 'Mul'):
            la, lb = to_lin(a), to_lin(b)
            v = None
            if la is not None and lb is not None:
                if base_op == 'Add':
                    v = from_lin(lin_add(la, lb, 1))
                elif base_op == 'Sub':
                    v = from_lin(lin_add(la, lb, -1))
                elif not la[0]:
                    v = from_lin((tuple((k, n * la[1]) for k, n in lb[0]), lb[1] * la[1]))
                elif not lb[0]:
                    v = from_lin((tuple((k, n * lb[1]) for k, n in la[0]), la[1] * lb[1]))
            if v is None:
                v = top_of_type(lty) if lty else TOP
            if op.endswith('WithOverflow'):
                return [(w, ('tuple', (v, FALSE)))]
            return [(w, v)]
        if False and a[0] in ('sym', 'symoff') and b[0] == 'int' and int_singleton(b) is not None \
                and op.replace('WithOverflow', '') in ('Add', 'Sub'):
            base = a[1]
            k = a[2] if a[0] == 'symoff' else 0
            c = int_singleton(b)
            k = k + c if op.startswith('Add') else k - c
            v = ('symoff', base, k) if k != 0 else ('sym', base)
            if op.endswith('WithOverflow'):
                return [(w, ('tuple', (v, FALSE)))]
            return [(w, v)]
        if op.endswith('WithOverflow'):
            v = int_arith(op, a, b, lty)
            return [(w, ('tuple', (v, FALSE)))]
        if op in ('Offset',):
            return [(w, TOP)]
        if op == 'BitAnd' and lty and lty.get('k') == 'bool':
            if a == FALSE or b == FALSE:
                return [(w, FALSE)]
            if a == TRUE:
                return [(w, b)]
            if b == TRUE:
                return [(w, a)]
            return [(w, BOOL)]
        if op == 'BitOr' and lty and lty.get('k') == 'bool':
            if a == TRUE or b == TRUE:
                return [(w, TRUE)]
            if a == FALSE:
                return [(w, b)]
            if b == FALSE:
                return [(w, a)]
            return [(w, BOOL)]
        return [(w, int_arith(op, a, b, lty))]

    def eval_discr(self, w, depth, rv):
        t = self.resolve(w, depth, rv['place'])
        v = self.read(w, t)
        ty = rv.get('ty') or {}
        npath = F.norm_path(ty.get('path')) if ty.get('k') == 'adt' else None
        if v[0] == 'adt':
            vs = self.adt_variants(v[1])
            if vs is not None and v[2] < len(vs):
                return [(w, const_int(vs[v[2]][2]))]
            return [(w, const_int(v[2]))]
        if v[0] == 'optsym':
            # an Option whose payload, if any, is the named symbolic atom
            return [(self.write(w, t, none()), const_int(0)), (self.write(w, t, some(('sym', v[1]))), const_int(1))]
        if npath is None:
            return [(w, TOP)]
        vs = self.adt_variants(npath)
        if vs is None or t is None:
            return [(w, TOP)]
        out = []
        for idx, (name, nf, discr) in enumerate(vs):
            nv = ('adt', npath, idx, (TOP,) * nf)
            out.append((self.write(w, t, nv), const_int(discr)))
        return out

    # ---- running ----
    def run(self, fn, args, st, store=None):
        """Analyse `fn` from an initial world; returns list of (World, return value)."""
        depth = 0
        self._budget = 0
        s = dict(store or {})
        for i, a in enumerate(args):
            s[(depth, i + 1)] = a
        w = World(s, st)
        return self.run_frame(fn, w, depth)

    def run_frame(self, fn, w, depth):
        if depth > self.max_depth:
            raise Inconclusive("call depth exceeded at " + fn.npath)
        mk = (fn.path, depth, w.key(), self.ctx_site)
        if mk in self.memo:
            return self.memo[mk]
        self.stats['fns_entered'].add(fn.npath)
        blocks = fn.blocks
        seen = set()
        work = [(0, w)]
        exits = {}
        live_in, borrowed = liveness(fn)
        while work:
            bb, cw = work.pop()
            # forget locals that are dead at this block (they cannot influence anything that follows)
            lv = live_in[bb]
            dead = [k for k in cw.store if k[0] == depth and k[1] not in lv and k[1] not in borrowed]
            if dead:
                s2 = dict(cw.store)
                for k in dead:
                    del s2[k]
                cw = World(s2, cw.st)
            key = (bb, cw.key())
            if key in seen:
                continue
            seen.add(key)
            self.stats['worlds'] += 1
            self._budget += 1
            if self._budget > self.max_worlds:
                raise Inconclusive("world budget exceeded in " + fn.npath)
            for nbb, nw in self.step_block(fn, bb, cw, depth):
                if nbb is None:
                    rv = nw.store.get((depth, 0), UNIT)
                    ow = nw.drop_frame(depth)
                    exits[(ow.key(), rv)] = (ow, rv)
                else:
                    if self.rule is not None and hasattr(self.rule, 'on_edge'):
                        nw = self.rule.on_edge(self, fn, bb, nbb, nw, depth)
                        if nw is None:
                            continue
                    work.append((nbb, nw))
        res = list(exits.values())
        self.memo[mk] = res
        return res

    def step_block(self, fn, bb, w, depth):
        """Execute one basic block abstractly; returns list of (next bb | None for return, world)."""
        b = fn.blocks[bb]
        worlds = [w]
        self._fn = fn
        self._bb = bb
        for s in b['stmts']:
            k = s['k']
            if k == 'assign':
                nxt = []
                for cw in worlds:
                    for w2, v in self.eval_rvalue(cw, depth, s['rv'], fn):
                        if self.rule is not None and hasattr(self.rule, 'on_store') \
                                and any(e['k'] == 'index' for e in s['place']['p']):
                            w3 = self.rule.on_store(self, w2, depth, s['place'], v, s)
                            if w3 is not None:
                                nxt.append(w3)
                                continue
                        t = self.resolve(w2, depth, s['place'])
                        nxt.append(self.write(w2, t, v))
                worlds = nxt
            elif k == 'dead':
                worlds = [cw.kill((depth, s['l'])) for cw in worlds]
            elif k == 'setdiscr':
                pass
        out = []
        t = b['term']
        k = t['k']
        for cw in worlds:
            if k == 'goto':
                out.append((t['t'], cw))
            elif k == 'return':
                out.append((None, cw))
            elif k == 'switch':
                self._fn, self._bb = fn, bb
                out.extend(self.do_switch(cw, depth, t))
            elif k == 'call':
                self._fn = fn
                for w2, rv in self.do_call(fn, bb, cw, depth, t):
                    if t['t'] is None:
                        continue  # diverging call
                    tgt = self.resolve(w2, depth, t['dest'])
                    out.append((t['t'], self.write(w2, tgt, rv)))
            elif k == 'assert':
                if self.rule is not None and hasattr(self.rule, 'on_assert'):
                    w2 = self.rule.on_assert(self, cw, fn, bb, t, depth)
                    if w2 is not None:
                        out.append((t['t'], w2))
                else:
                    out.append((t['t'], cw))
            elif k == 'drop':
                out.append((t['t'], cw))
            elif k in ('unreachable', 'resume', 'terminate'):
                pass
            else:
                raise Inconclusive("unsupported terminator %s in %s" % (k, fn.npath))
        return out

    def do_switch(self, w, depth, t):
        o = t['op']
        if self.rule is not None and hasattr(self.rule, 'on_load') and o['k'] in ('copy', 'move') \
                and any(e['k'] in ('index', 'cindex') for e in o['place']['p']):
            # a slice pattern (`[b'-', b'-', ..]`) tests elements in place: let the rule supply their values
            r = self.rule.on_load(self, w, depth, o['place'])
            if r is not None:
                out = []
                for w2, v2 in r:
                    out.extend(self._switch_on(w2, v2, None, t))
                return out
        v = self.operand(w, depth, t['op'])
        tgt = self.operand_target(w, depth, t['op'])
        return self._switch_on(w, v, tgt, t)

    def _switch_on(self, w, v, tgt, t):
        out = []
        if v[0] == 'symcmp':
            covered = set(t['vals'])
            for val, bbt in list(zip(t['vals'], t['targets'])) + [(x, t['otherwise']) for x in (0, 1) if x not in covered]:
                w2 = self.rule.on_symbranch(self, w, v, val != 0)
                if w2 is not None:
                    out.append((bbt, w2))
                elif hasattr(self.rule, 'on_pruned') and self._fn is not None:
                    self.rule.on_pruned(self._fn, getattr(self, '_bb', None), bbt)      # infeasible under the path facts
            return out
        if v[0] == 'pred':
            # bool: 0 -> false branch, otherwise (or 1) -> true
            for val, bbt in zip(t['vals'], t['targets']):
                part = v[4] if val == 0 else v[3]
                if not int_is_empty(part):
                    w2 = self._refine(w, v[1], v[2], part)
                    if tgt is not None:
                        w2 = self.write(w2, tgt, const_int(val))
                    out.append((bbt, w2))
            # otherwise branch
            covered = set(t['vals'])
            for val in (0, 1):
                if val not in covered:
                    part = v[4] if val == 0 else v[3]
                    if not int_is_empty(part):
                        w2 = self._refine(w, v[1], v[2], part)
                        if tgt is not None:
                            w2 = self.write(w2, tgt, const_int(val))
                        out.append((t['otherwise'], w2))
            return out
        if v[0] == 'int':
            rest = v
            for val, bbt in zip(t['vals'], t['targets']):
                if int_contains(v, val):
                    w2 = self.write(w, tgt, const_int(val)) if tgt is not None else w
                    out.append((bbt, w2))
            rest = int_minus_vals(v, t['vals'])
            if not int_is_empty(rest):
                w2 = self.write(w, tgt, rest) if tgt is not None else w
                out.append((t['otherwise'], w2))
            return out
        # unknown: all targets
        ty = t.get('ty') or {}
        for val, bbt in zip(t['vals'], t['targets']):
            w2 = self.write(w, tgt, const_int(val)) if tgt is not None else w
            out.append((bbt, w2))
        out.append((t['otherwise'], w))
        return out

    def _refine(self, w, target, full, part):
        """Narrow the int at `target` to `part` if it still holds the value the predicate was computed from."""
        cur = self.read(w, target)
        if cur == full:
            return self.write(w, target, part)
        return w

    # ---- calls ----
    def find_body(self, ci):
        for p in (ci.resolved, ci.path):
            if p and F.raw_key(p) in self.by_path:
                return self.by_path[F.raw_key(p)]
        return None

    def do_call(self, fn, bb, w, depth, t):
        ci = CallInfo(fn, bb, t, depth)
        args = [self.operand(w, depth, a) for a in t['args']]
        ci.args = args
        if ci.path is None:
            # indirect call through a value
            fv = self.operand(w, depth, t['func']['indirect'])
            return self.call_value(w, depth, ci, fv, args)
        if self.rule is not None:
            r = self.rule.on_call(self, w, ci, args)
            if r is not None:
                self.stats['calls_event'] += 1
                return r
        m = self.models.get(ci.npath) or self.models.get(ci.nresolved)
        if m is None and ci.trait:
            m = self.models.get(ci.trait + '::' + (ci.name or ''))
        if m is not None:
            r = m(self, w, ci, args)
            if r is not None:
                self.stats['calls_model'] += 1
                return r
        body = self.find_body(ci)
        if body is not None:
            if self.rule is None or not hasattr(self.rule, 'inline_ok') or self.rule.inline_ok(self, ci, body):
                if self.ctx_site is None and self.rule is not None and hasattr(self.rule, 'transparent') \
                        and self.rule.transparent(body):
                    self.ctx_site = (ci.site(), ci.span)
                    try:
                        return self.inline(body, w, depth, args)
                    finally:
                        self.ctx_site = None
                return self.inline(body, w, depth, args)
        return self.opaque(w, ci, args)

    def inline(self, body, w, depth, args):
        self.stats['calls_inlined'] += 1
        nd = depth + 1
        s = dict(w.store)
        nargs = body.body['arg_count']
        for i in range(nargs):
            s[(nd, i + 1)] = args[i] if i < len(args) else TOP
        return self.run_frame(body, World(s, w.st), nd)

    def call_closure(self, w, depth, clos, args, by_ref=None):
        """Call closure value `clos` (('closure', def, captures) or ('fn', def)) with untupled args."""
        if clos[0] == 'fn':
            body = self.by_path.get(F.raw_key(clos[1]))
            if body is None:
                # constructor functions like Input::Control / Some used as fn items
                ctor = self._ctor(clos[1], args)
                if ctor is not None:
                    return [(w, ctor)]
                return None
            return self.inline(body, w, depth, args)
        if clos[0] != 'closure':
            return None
        body = self.by_path.get(F.raw_key(clos[1]))
        if body is None:
            return None
        # closure bodies take the environment as _1: by value for FnOnce-only closures,
        # by reference otherwise; decide from the declared type of _1.
        env_ty = body.body['locals'][1]['ty']
        if env_ty.get('k') == 'ref':
            if by_ref is not None:
                env = by_ref
            else:
                env = ('ref', ('const', clos))
        else:
            env = clos
        return self.inline(body, w, depth, [env] + list(args))

    def _ctor(self, path, args):
        np_ = F.norm_path(path)
        # enum variant constructor: <adt>::<Variant>
        if '::' in np_:
            adt, vname = np_.rsplit('::', 1)
            vs = self.adt_variants(adt)
            if vs:
                for i, (n, nf, d) in enumerate(vs):
                    if n == vname:
                        return ('adt', adt, i, tuple(args[:nf]) + (TOP,) * max(0, nf - len(args)))
        return None

    def call_value(self, w, depth, ci, fv, args):
        r = self.call_closure(w, depth, fv, args)
        if r is not None:
            return r
        return self.opaque(w, ci, args)

    def opaque(self, w, ci, args):
        self.stats['calls_opaque'] += 1
        self.stats['opaque_callees'].add(ci.npath or '<indirect>')
        if self.rule is not None and hasattr(self.rule, 'on_opaque'):
            self.rule.on_opaque(self, w, ci, args)
        # havoc everything reachable through `&mut` arguments
        pairs = []
        for a, ty in zip(args, ci.arg_tys):
            pairs.append((a, ty))
            # the Fn* call ABI passes the arguments as one tuple: `f(x, &mut y)` is call_once(f, (x, &mut y))
            if ty.get('k') == 'tuple' and a[0] == 'tuple' and len(ty.get('of', [])) == len(a[1]):
                pairs.extend(zip(a[1], ty['of']))
        for a, ty in pairs:
            if ty.get('k') == 'ref' and ty.get('mut') and a[0] == 'ref' and a[1][0] not in ('const', 'val'):
                nv = TOP
                if self.rule is not None and hasattr(self.rule, 'havoc_value'):
                    w, nv = self.rule.havoc_value(self, w, ci, a[1], self.read(w, a[1]))
                w = self.write(w, a[1], nv)
        if self.rule is not None and hasattr(self.rule, 'opaque_result'):
            r = self.rule.opaque_result(self, w, ci)
            if r is not None:
                return r
        return [(w, top_of_type(ci.dest_ty))]

    # ---- helpers for rules ----
    def split_enum(self, w, target, ty_npath):
        """Fork `w` so that the value at target has a definite variant. -> list of (world, value)"""
        v = self.read(w, target)
        if v[0] == 'adt':
            return [(w, v)]
        if v[0] == 'optsym':
            return [(self.write(w, target, x) if target is not None else w, x) for x in (none(), some(('sym', v[1])))]
        vs = self.adt_variants(ty_npath)
        if vs is None:
            return [(w, v)]
        out = []
        for idx, (name, nf, discr) in enumerate(vs):
            nv = ('adt', ty_npath, idx, (TOP,) * nf)
            out.append((self.write(w, target, nv) if target is not None else w, nv))
        return out

    def split_value(self, v, ty_npath):
        if v[0] == 'adt':
            return [v]
        if v[0] == 'optsym':
            return [none(), some(('sym', v[1]))]
        vs = self.adt_variants(ty_npath)
        if vs is None:
            return [v]
        return [('adt', ty_npath, idx, (TOP,) * nf) for idx, (name, nf, discr) in enumerate(vs)]


def to_lin(v):
    """abstract value -> linear form (items, const) or None"""
    if v[0] == 'int':
        n = int_singleton(v)
        return ((), n) if n is not None else None
    if v[0] == 'sym':
        return (((v[1], 1),), 0)
    if v[0] == 'symoff':
        return (((v[1], 1),), v[2])
    if v[0] == 'lin':
        return (v[1], v[2])
    return None


def from_lin(l):
    items, c = l
    items = tuple(sorted((k, n) for k, n in items if n != 0))
    if not items:
        return const_int(c)
    if len(items) == 1 and items[0][1] == 1:
        return ('symoff', items[0][0], c) if c != 0 else ('sym', items[0][0])
    return ('lin', items, c)


def lin_add(a, b, sign=1):
    d = dict(a[0])
    for k, v in b[0]:
        d[k] = d.get(k, 0) + sign * v
    return (tuple(sorted((k, v) for k, v in d.items() if v != 0)), a[1] + sign * b[1])


def is_symbolic(v):
    return v[0] in ('sym', 'symoff', 'lin')


def join(a, b):
    if a == b:
        return a
    if a[0] == 'int' and b[0] == 'int':
        return int_union(a, b)
    return TOP


def fmt_val(v, depth=0):
    if depth > 4:
        return '…'
    k = v[0]
    if k == 'top':
        return '⊤'
    if k == 'int':
        s = sorted(v[1])
        if len(s) > 12:
            body = "%d..%d(%d)" % (s[0], s[-1], len(s))
        else:
            body = ",".join(str(x) for x in s)
        if v[2] is not None:
            body += (",≥%d" % v[2]) if body else ("≥%d" % v[2])
        return "{" + body + "}"
    if k == 'adt':
        name = v[1].rsplit('::', 1)[-1]
        return "%s#%d(%s)" % (name, v[2], ", ".join(fmt_val(x, depth + 1) for x in v[3]))
    if k == 'tuple':
        return "(" + ", ".join(fmt_val(x, depth + 1) for x in v[1]) + ")"
    if k == 'ref':
        return "&" + str(v[1][:2]) + "".join(str(p) for p in v[1][2]) if v[1][0] != 'const' else "&const " + fmt_val(v[1][1], depth + 1)
    if k == 'cstr':
        return repr(v[1])
    if k == 'pred':
        return "pred(%s∈%s)" % (v[1], fmt_val(v[3]))
    return str(v)
