"""E4: finite-state extraction by abstract interpretation over byte classes.

`extract` iterates  state x input-class -> {(state', output)}  to a fixpoint, starting from an initial
abstract state of a `&mut self` method.  The input alphabet is a partition of 0..=255 whose blocks respect
every constant of the implementation (collected from the MIR of the anchored functions) and every constant
of the reference model, so each comparison is decided for a whole block and no join loses precision.
"""
from . import facts as F
from .absint import (Interp, TOP, World, const_int, mk_int, int_singleton, Inconclusive, OPTION)


def int_constants(fns):
    """All integer constants mentioned in comparisons / switches / range constructors of the given functions."""
    out = set()

    def visit_op(o):
        if o.get('k') == 'const':
            v = o.get('val')
            if isinstance(v, dict) and 'int' in v:
                out.add(v['int'])

    for f in fns:
        bodies = [f.body] + list(f.promoted)
        for body in bodies:
            for b in body['blocks']:
                for s in b['stmts']:
                    if s['k'] == 'assign':
                        rv = s['rv']
                        for k in ('op', 'l', 'r', 'x'):
                            if k in rv and isinstance(rv[k], dict):
                                visit_op(rv[k])
                        for o in rv.get('ops', []) or []:
                            visit_op(o)
                t = b['term']
                if t['k'] == 'switch':
                    out.update(t['vals'])
                if t['k'] == 'call':
                    for o in t['args']:
                        visit_op(o)
    return out


def with_callees(lib, fns, limit=40):
    """the given functions plus every function / closure of the same crate they can reach through calls or closure
    construction: the constants of a helper (e.g. a `second_octet_range(first)` table) cut the alphabet as well"""
    by = {}
    for g in lib.fns:
        by[F.raw_key(g.path)] = g
    out = list(fns)
    seen = {F.raw_key(f.path) for f in fns}
    work = list(fns)
    while work and len(out) < limit:
        f = work.pop()
        for b in f.blocks:
            refs = []
            t = b['term']
            if t['k'] == 'call':
                for k in ('resolved', 'path'):
                    if t['func'].get(k):
                        refs.append(t['func'][k])
            for st in b['stmts']:
                if st['k'] == 'assign' and st['rv'].get('k') == 'agg' and st['rv'].get('closure'):
                    refs.append(st['rv']['closure'])
            for r in refs:
                k = F.raw_key(r)
                if k in by and k not in seen:
                    seen.add(k)
                    out.append(by[k])
                    work.append(by[k])
    return out


def int_cuts(fns):
    """Cut points for the input alphabet: positions where some comparison of the functions can change its answer.
    `x >= c` / `x < c` cut at c; `x > c` / `x <= c` at c+1; `==`, `!=`, switch values at c and c+1;
    inclusive-range constructors at lo and hi+1; any other constant use at c and c+1."""
    cuts = set()

    def cv(o):
        if o.get('k') == 'const':
            v = o.get('val')
            if isinstance(v, dict) and 'int' in v:
                return v['int']
        return None

    for f in fns:
        for body in [f.body] + list(f.promoted):
            for b in body['blocks']:
                for s in b['stmts']:
                    if s['k'] != 'assign':
                        continue
                    rv = s['rv']
                    if rv['k'] == 'bin':
                        for side, other in (('l', 'r'), ('r', 'l')):
                            c = cv(rv[side])
                            if c is None:
                                continue
                            op = rv['op']
                            if side == 'l':
                                op = {'Lt': 'Gt', 'Le': 'Ge', 'Gt': 'Lt', 'Ge': 'Le'}.get(op, op)
                            if op in ('Ge', 'Lt'):
                                cuts.add(c)
                            elif op in ('Gt', 'Le'):
                                cuts.add(c + 1)
                            elif op in ('Eq', 'Ne'):
                                cuts.update((c, c + 1))
                            elif op in ('BitAnd', 'BitOr', 'Shl', 'Shr', 'BitXor'):
                                pass
                            else:
                                cuts.update((c, c + 1))
                t = b['term']
                if t['k'] == 'switch':
                    for v in t['vals']:
                        cuts.update((v, v + 1))
                if t['k'] == 'call' and (t['func'].get('path') or '').endswith('RangeInclusive::<Idx>::new'):
                    a = [cv(o) for o in t['args']]
                    if a[0] is not None:
                        cuts.add(a[0])
                    if len(a) > 1 and a[1] is not None:
                        cuts.add(a[1] + 1)
    return cuts


def partition_at(cuts, lo=0, hi=255):
    cs = sorted({lo, hi + 1} | {c for c in cuts if lo <= c <= hi + 1})
    return [frozenset(range(a, b)) for a, b in zip(cs, cs[1:]) if b > a]


def partition(boundaries, lo=0, hi=255):
    """Blocks of lo..=hi cut at every boundary c (a block starts at c) and after it (c+1)."""
    cuts = {lo, hi + 1}
    for c in boundaries:
        if lo <= c <= hi:
            cuts.add(c)
            cuts.add(c + 1)
    cuts = sorted(x for x in cuts if lo <= x <= hi + 1)
    return [frozenset(range(a, b)) for a, b in zip(cuts, cuts[1:]) if b > a]


def cls_name(c):
    a, b = min(c), max(c)
    return "%02X" % a if a == b else "%02X-%02X" % (a, b)


def extract(I, fn, init_state, classes, self_cell=(-1, 0), normalise=None, render=None, extra_args=(), max_states=5000):
    """-> (states list, transitions {(state, cls): [(state', output)]})

    init_state: abstract value of *self.  render(I, world, retval) -> hashable output description."""
    normalise = normalise or (lambda I, v: v)
    render = render or (lambda I, w, rv: rv)
    init = normalise(I, init_state)
    states = [init]
    seen = {init}
    trans = {}
    work = [init]
    while work:
        s = work.pop()
        for c in classes:
            args = [('ref', (self_cell[0], self_cell[1], ())), ('int', c, None)] + list(extra_args)
            exits = I.run(fn, args, None, {self_cell: s})
            outs = []
            for w, rv in exits:
                out = render(I, w, rv)
                ns = normalise(I, w.store[self_cell])
                outs.append((ns, out))
                if ns not in seen:
                    seen.add(ns)
                    states.append(ns)
                    work.append(ns)
                    if len(states) > max_states:
                        raise Inconclusive("state space of %s exceeds %d" % (fn.npath, max_states))
            trans[(s, c)] = outs
    return states, trans
