"""Bounded-exhaustive abstract exploration of derive-generated argument state machines.

The generated `FromRaw::parse` (and the option-skipping walker in `Help::command_help`) is interpreted abstractly with
the argument iterator as an *event*: at every `ArgsIter::next` the analysis forks over the alphabet of argument shapes
that the declaration (and the code's own constants) can distinguish — each declared long / short option, an
undeclared one, a value (whose conversion succeeds or fails), `--`, end of arguments. Every word of up to `depth`
symbols is followed to the function's exit; conversions (`FromArgument::from_arg` at a type), sub-command parsing and
help delegation are events with symbolic results, so the exit value shows which input landed in which field.
The same words are run through the reference semantics written from the property statement (ref_parse / ref_help) on the
hand-written oracle of the declaration.
"""
from . import facts as F
from .absint import (Interp, TOP, UNIT, OPTION, RESULT, none, some, ok, err, const_int, int_singleton, TRUE, FALSE, BOOL)
from .rules.common import strip_crate

UNKNOWN_LONG = 'zz-undeclared'
UNKNOWN_SHORT = 'Z'


def alphabet(cmd):
    syms = []
    for o in cmd.get('options', []):
        if o.get('long'):
            syms.append(('L', o['long']))
        if o.get('short'):
            syms.append(('S', o['short']))
    syms += [('L', UNKNOWN_LONG), ('S', UNKNOWN_SHORT), ('V',), ('DD',)]
    return syms


class GenRule:
    """st = (word, nconv, phase)  — word: tuple of input symbols consumed so far"""

    def __init__(self, command, syms, depth, kind):
        self.command = command
        self.syms = syms
        self.depth = depth
        self.kind = kind
        self.notes = []

    def inline_ok(self, I, ci, body):
        # local helper enums' derived PartialEq (States) are inlined; nothing else
        if body.name == 'command_count':
            return True       # constant functions (generated, or the library's impl for RawCommand)
        return body.expn is not None and 'PartialEq' in (body.expn or '') and body.crate is ci.fn.crate

    def on_call(self, I, w, ci, args):
        p = ci.npath or ''
        rp = ci.nresolved or ''
        word, nconv = w.st
        if p == 'command::RawCommand::name':
            return [(w, ('cstr', self.command.encode('utf-8')))]
        if p == 'command::RawCommand::args':
            return [(w, ('sym', 'arglist'))]
        if p == 'arguments::ArgList::args':
            return [(w, ('sym', 'argsiter'))]
        if p == 'core::clone::Clone::clone':
            a = args[0]
            return [(w, I.read(w, a[1]) if a[0] == 'ref' else a)]
        if rp.endswith('ArgsIter as core::iter::traits::iterator::Iterator>::next'):
            out = [(w.with_st((word + (('END',),), nconv)), none())]
            if len(word) >= self.depth or (word and word[-1] == ('END',)):
                return out
            after_dd = ('DD',) in word
            for s in self.syms:
                if after_dd and s[0] != 'V':
                    continue
                if s[0] == 'L':
                    v = ('adt', 'arguments::Arg', self.vidx(I, 'LongOption'), (('cstr', s[1].encode('utf-8')),))
                elif s[0] == 'S':
                    v = ('adt', 'arguments::Arg', self.vidx(I, 'ShortOption'), (const_int(ord(s[1])),))
                elif s[0] == 'V':
                    v = ('adt', 'arguments::Arg', self.vidx(I, 'Value'), (('sym', 'v%d' % len(word)),))
                else:
                    v = ('adt', 'arguments::Arg', self.vidx(I, 'DoubleDash'), ())
                out.append((w.with_st((word + (s,), nconv)), some(v)))
            return out
        if p == 'arguments::FromArgument::from_arg':
            ty = ci.gargs[0] if ci.gargs else {}
            tname = ty.get('s', '?').replace("'_ ", '').replace("'a ", '')
            a = args[0]
            an = a[1] if a[0] == 'sym' else ('const:%s' % a[1].decode() if a[0] == 'cstr' else '?')
            okv = ok(('sym', 'conv<%s>(%s)' % (tname, an)))
            if tname.lstrip('&') == 'str' or a[0] == 'cstr':
                # &str never fails; a constant argument is a declared default, taken to be well-formed
                return [(w, okv)]
            fe = ('adt', 'arguments::FromArgumentError', 0, (a, ('cstr', tname.encode())))
            # a failing conversion is marked in the word
            w_bad = w.with_st((word + (('!conv', tname, an),), nconv))
            return [(w, okv), (w_bad, err(fe))]
        if p == 'arguments::ArgsIter::into_args':
            return [(w, ('sym', 'rest@%d' % len([s for s in word if s[0] != '!conv'])))]
        if p == 'command::RawCommand::new':
            return [(w, ('sym', 'cmd(%s,%s)' % (self._nm(args[0]), self._nm(args[1]))))]
        tr = strip_crate(ci.trait)
        if tr == 'service::FromRaw' and ci.name == 'parse':
            ty = ci.gargs[0] if ci.gargs else {}
            t = F.norm_path(ty.get('path')) if ty.get('k') == 'adt' else ty.get('s')
            okv = ok(('sym', 'sub<%s>(%s)' % (t, self._nm(args[0]))))
            return [(w, okv), (w.with_st((word + (('!sub',),), nconv)), err(('sym', 'sub-error')))]
        if tr == 'service::Help' and ci.name == 'command_help':
            ty = ci.gargs[0] if ci.gargs else {}
            t = F.norm_path(ty.get('path')) if ty.get('k') == 'adt' else ty.get('s')
            if getattr(self, 'subhelp_outcomes', False):
                # group level: the member either answers, does not know the command, or fails to write
                he = I.adts['service::HelpError']
                vi = {v['name']: i for i, v in enumerate(he['variants'])}
                nm = self._nm(args[1])
                return [(w.with_st((word + (('subhelp', t, nm, 'Ok'),), nconv)), ok(UNIT)),
                        (w.with_st((word + (('subhelp', t, nm, 'Unknown'),), nconv)), err(('adt', 'service::HelpError', vi['UnknownCommand'], ()))),
                        (w.with_st((word + (('subhelp', t, nm, 'Write'),), nconv)),
                         err(('adt', 'service::HelpError', vi['WriteError'], (('sym', 'sink-error'),))))]
            return [(w.with_st((word + (('subhelp', t, self._nm(args[1])),), nconv)), ok(UNIT))]
        if tr == 'service::Help' and ci.name == 'list_commands':
            ty = ci.gargs[0] if ci.gargs else {}
            t = F.norm_path(ty.get('path')) if ty.get('k') == 'adt' else ty.get('s')
            return [(w.with_st((word + (('sublist', t),), nconv)), ok(UNIT))]
        if p.startswith('writer::Writer::'):
            txt = args[1][1].decode('utf-8', 'replace') if len(args) > 1 and args[1][0] == 'cstr' else '?'
            if ci.name == 'write_list_element' and len(args) > 2:
                txt = "%s|%s" % (txt, args[2][1].decode('utf-8', 'replace') if args[2][0] == 'cstr' else '?')
            return [(w.with_st((word + (('out', ci.name, txt),), nconv)), ok(UNIT))]
        if tr in ('core::ops::function::FnMut', 'core::ops::function::FnOnce', 'core::ops::function::Fn') and args and args[0][0] != 'closure':
            a0 = args[0]
            if a0[0] == 'ref':
                v = I.read(w, a0[1])
                if v[0] == 'closure':
                    return None
            return [(w.with_st((word + (('parent',),), nconv)), ok(UNIT))]
        if p == 'core::default::Default::default':
            return [(w, ('sym', 'Default::default()'))]
        if p.startswith('core::panicking'):
            self.notes.append("panic reachable at %s" % ci.span)
            return []
        return None

    def _nm(self, v):
        if v[0] == 'sym':
            return v[1]
        if v[0] == 'cstr':
            return 'const:' + v[1].decode('utf-8', 'replace')
        return '?'

    def vidx(self, I, name):
        for i, v in enumerate(I.adts['arguments::Arg']['variants']):
            if v['name'] == name:
                return i
        raise KeyError("arguments::Arg::%s" % name)


def render(I, v, depth=0):
    if depth > 6:
        return '…'
    k = v[0]
    if k == 'sym':
        return v[1]
    if k == 'cstr':
        return 'const:' + v[1].decode('utf-8', 'replace')
    if k == 'int':
        n = int_singleton(v)
        return str(n) if n is not None else 'int?'
    if k == 'adt':
        a = I.adts.get(v[1])
        if v[1] == OPTION:
            return 'None' if v[2] == 0 else 'Some(%s)' % render(I, v[3][0], depth + 1)
        if v[1] == RESULT:
            return ('Ok(%s)' if v[2] == 0 else 'Err(%s)') % render(I, v[3][0], depth + 1)
        if a:
            var = a['variants'][v[2]]
            fs = ", ".join("%s=%s" % (f['name'], render(I, x, depth + 1)) for f, x in zip(var['fields'], v[3]))
            return "%s{%s}" % (var['name'], fs)
        return "%s#%d" % (v[1], v[2])
    if k == 'tuple':
        return "(" + ", ".join(render(I, x, depth + 1) for x in v[1]) + ")"
    if k == 'top':
        return '⊤'
    return k


def explore(crates, fn, command, syms, depth, kind, arg_count=None, subhelp_outcomes=False):
    rule = GenRule(command, syms, depth, kind)
    rule.subhelp_outcomes = subhelp_outcomes
    I = Interp(crates, rule, max_worlds=400000)
    n = fn.body['arg_count']
    if kind == 'parse':
        args = [('sym', 'rawcommand')]
    else:
        args = [('sym', 'parent-fn'), ('sym', 'rawcommand'), ('sym', 'writer')]
    args = (args + [TOP] * n)[:n]
    exits = I.run(fn, args, ((), 0), {})
    out = {}
    for w, rv in exits:
        word, _ = w.st
        out.setdefault(word, set()).add(render(I, rv))
    return out, rule, I


# ---------------------------------------------------------------------------------------------
# reference semantics (from the property statement), driven by the declaration oracle

def usage_name(o):
    """usage name of a field as `MissingRequiredArgument` reports it"""
    if 'usage' in o:
        return o['usage']
    if o.get('missing'):
        return o['missing']
    pre = ('--' + o['long']) if o.get('long') else ('-' + o['short'])
    if o.get('kind') == 'flag':
        return pre
    return "%s <%s>" % (pre, o['value_name'])


def ref_parse(cmd, variant_fields, word):
    """-> expected rendered result, or None when the statement leaves the word's meaning open"""
    opts = cmd.get('options', [])
    poss = cmd.get('positionals', [])
    sub = cmd.get('subcommand')
    setv = {}
    mode = None
    pos = 0
    i = 0
    n = 0
    while i < len(word):
        s = word[i]
        n_in = len([x for x in word[:i] if x[0] not in ('!conv', '!sub')])
        if s[0] in ('L', 'S'):
            o = [x for x in opts if (x.get('long') == s[1] if s[0] == 'L' else x.get('short') == s[1])]
            if mode is not None:
                return None          # an option where a value is due: not settled by the statement
            if not o:
                if s[0] == 'L':
                    return "Err(UnexpectedLongOption{name=const:%s})" % s[1]
                return "Err(UnexpectedShortOption{name=%d})" % ord(s[1])
            o = o[0]
            if o['kind'] == 'flag':
                setv[o['field']] = '1'
            else:
                mode = o
        elif s[0] == 'V':
            val = 'v%d' % n_in
            nxt = word[i + 1] if i + 1 < len(word) else None
            if mode is not None:
                o = mode
                mode = None
                if nxt and nxt[0] == '!conv':
                    return "Err(ParseValueError{value=%s, expected=const:%s})" % (val, o['type'])
                setv[o['field']] = 'conv<%s>(%s)' % (o['type'], val)
            elif sub:
                if nxt and nxt[0] == '!sub':
                    return "Err(sub-error)"
                setv['__sub__'] = 'sub<%s>(cmd(%s,rest@%d))' % (sub['type'], val, n_in + 1)
                i = len(word)        # the rest of the line belongs to the sub-command
                break
            elif pos < len(poss):
                o = poss[pos]
                pos += 1
                if nxt and nxt[0] == '!conv':
                    return "Err(ParseValueError{value=%s, expected=const:%s})" % (val, o['type'])
                setv[o['field']] = 'conv<%s>(%s)' % (o['type'], val)
            else:
                return "Err(UnexpectedArgument{value=%s})" % val
        elif s[0] == 'DD':
            pass
        elif s[0] == 'END':
            break
        i += 1
    # end of line: assemble in declaration order
    fields = {}
    allf = [(o['field'], o) for o in opts] + [(o['field'], o) for o in poss]
    order = variant_fields
    for fname in order:
        o = dict(allf).get(fname)
        if o is None:
            # sub-command field
            if '__sub__' in setv:
                fields[fname] = setv['__sub__'] if (sub or {}).get('required', True) else 'Some(%s)' % setv['__sub__']
            elif (sub or {}).get('required', True):
                return "Err(MissingRequiredArgument{name=const:%s})" % sub.get('usage', '<COMMAND>')
            else:
                fields[fname] = 'None'
            continue
        if o.get('kind') == 'flag':
            fields[fname] = setv.get(fname, '0')
        elif fname in setv:
            fields[fname] = setv[fname] if o.get('required') or o.get('default') else 'Some(%s)' % setv[fname]
        elif o.get('default'):
            d = o['default']
            fields[fname] = 'conv<%s>(const:%s)' % (o['type'], d[6:]) if d.startswith('parse:') else None
        elif o.get('required'):
            return "Err(MissingRequiredArgument{name=const:%s})" % usage_name(o)
        else:
            fields[fname] = 'None'
    return fields


def ref_help(cmd, word):
    """the help walker: -> ('own',) | ('sub', type, rest index) | None (open)"""
    opts = cmd.get('options', [])
    sub = cmd.get('subcommand')
    if not sub:
        return ('own',)
    mode = None
    for i, s in enumerate(word):
        if s[0] in ('L', 'S'):
            o = [x for x in opts if (x.get('long') == s[1] if s[0] == 'L' else x.get('short') == s[1])]
            if mode is not None:
                return None
            if not o:
                continue          # undeclared options (such as -h / --help themselves) are skipped
            mode = o[0] if o[0]['kind'] != 'flag' else None
        elif s[0] == 'V':
            if mode is not None:
                mode = None
            else:
                return ('sub', sub['type'], i)
        elif s[0] == 'END':
            break
    return ('own',)
