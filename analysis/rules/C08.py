"""C08 — arguments are classified as `--`, long option, short-option cluster or value.

Decided (exact, every token list): `ArgsIter::next` is interpreted abstractly for every iterator state
(values_only, leftover empty / non-empty) and every token *shape* (length 0 | 1 | 2 | >=3, first / second byte is '-'
or not: the partition induced by the constants of the code and of the statement; bytes >= 0x80 are ordinary), with the
token source and the scalar splitter as symbolic events. The resulting decision table — which `Arg` is produced, which
sub-slice it carries (`token[2..]`, first scalar of `token[1..]`), how `values_only` / `leftover` change, whether a token
is consumed — must equal the table written from the statement (specs/arguments.py). Re-joining follows from the
table: every token yields itself, `--`, `--` + its tail, or `-` + its scalars in order.
`char_pop_front` takes exactly one scalar off the front of a cluster: decided bit-exactly in the bit-provenance domain
for each encoded length (shared with C17 clause B).
"""
import sys
from .. import facts as F
from ..absint import (place_index, Interp, TOP, OPTION, none, some, const_int, mk_int, int_singleton, TRUE, FALSE, BOOL)
from .common import lib_crate
from . import C14 as base
from . import session

sys.path.insert(0, F.VERIF)
from specs import arguments as ref  # noqa: E402

LEVEL = "other"
DASH = 0x2D
IMPORTS = [
    ("C07", ("C07.carry",), "`nothing is lost or invented`: the classified items are read from a token list that every wrapper (ArgList, "
                            "ArgsIter, RawCommand) hands on unchanged, `one empty token` included"),
]


class R:
    def __init__(self, tok):
        self.tok = tok

    def inline_ok(self, I, ci, body):
        # helper methods of the iterator itself (e.g. a `pop_short_option`) are looked into
        rec = any(b['term']['k'] == 'call' and F.norm_path((b['term']['func'] or {}).get('path') or '') == body.npath for b in body.blocks)
        if base.self_adt(body) == 'arguments::ArgsIter' and body.kind == 'AssocFn' and (body.impl_trait is None):
            return not rec
        # free predicate helpers of the same module (`starts_option(bytes)`, `is_double_dash(bytes)`)
        return body.kind == 'Fn' and base.self_adt(body) is None and body.npath.startswith('arguments::') and not rec

    def on_load(self, I, w, depth, place):
        v = w.store.get((depth, place['l']), TOP)
        if v != ('sym', 'token'):
            return None
        iv = place_index(w, depth, place)
        n = int_singleton(iv) if iv is not None and iv[0] == 'int' else None
        ln, d0, d1 = self.tok
        other = mk_int(x for x in range(256) if x != DASH)
        if n == 0:
            return [(w, const_int(DASH) if d0 else other)]
        if n == 1:
            return [(w, const_int(DASH) if d1 else other)]
        return [(w, mk_int(range(256)))]

    def token_len(self):
        return {'0': const_int(0), '1': const_int(1), '2': const_int(2), '>=3': ('int', frozenset(), 3)}[self.tok[0]]

    def on_len(self, I, w, x):
        # `match bytes { [a, b, ..] => .. }` reads the length through the slice's metadata
        return self.token_len() if x == ('sym', 'token') and self.tok is not None else None

    def on_call(self, I, w, ci, args):
        p = ci.nresolved or ci.npath or ''
        if p.endswith('utils::char_pop_front'):
            a = session.atom_name(args[0])
            if args[0] == ('cstr', b''):
                return [(w.with_st(w.st + ('pop(empty)',)), none())]
            return [(w.with_st(w.st + ('pop(%s)' % a,)), some(('tuple', (('sym', 'first(%s)' % a), ('sym', 'rest(%s)' % a)))))]
        if p.endswith('TokensIter as core::iter::traits::iterator::Iterator>::next'):
            if self.tok is None:
                return [(w.with_st(w.st + ('take:none',)), none())]
            return [(w.with_st(w.st + ('take',)), some(('sym', 'token')))]
        if ci.name in ('eq', 'ne') and len(args) == 2 and self.tok is not None:
            # comparison of the whole token with a constant (`bytes == b"--"`)
            vals = []
            for a in args:
                for _ in range(3):
                    if a[0] == 'ref':
                        a = I.read(w, a[1])
                vals.append(a)
            if ('sym', 'token') in vals and any(v[0] == 'cstr' for v in vals):
                c = [v for v in vals if v[0] == 'cstr'][0][1]
                ln, d0, d1 = self.tok
                if c == b'--':
                    r = ln == '2' and d0 and d1
                elif c == b'-':
                    r = ln == '1' and d0
                elif c == b'':
                    r = ln == '0'
                else:
                    return None
                if ci.name == 'ne':
                    r = not r
                return [(w, TRUE if r else FALSE)]
        if ci.npath in ('core::str::<impl str>::as_bytes',):
            return [(w, args[0])]
        if ci.npath in ('core::slice::<impl [T]>::len', 'core::str::<impl str>::len') and args[0] == ('sym', 'token'):
            ln = self.tok[0]
            return [(w, {'0': const_int(0), '1': const_int(1), '2': const_int(2), '>=3': ('int', frozenset(), 3)}[ln])]
        if ci.npath == 'core::str::<impl str>::get_unchecked' and args[0] == ('sym', 'token'):
            r = args[1]
            if r[0] == 'adt' and r[1].endswith('RangeFrom') and int_singleton(r[3][0]) is not None:
                return [(w, ('sym', 'token[%d..]' % int_singleton(r[3][0])))]
            return [(w, ('sym', 'token[?]'))]
        return None


def render(I, rv):
    if rv[0] == 'adt' and rv[1] == OPTION:
        if rv[2] == 0:
            return 'None'
        a = rv[3][0]
        if a[0] == 'adt' and a[1] == 'arguments::Arg':
            name = I.adts['arguments::Arg']['variants'][a[2]]['name']
            if not a[3]:
                return name
            p = session.atom_name(a[3][0])
            p = {'token': 'token', 'first(leftover)': 'first scalar of leftover', 'first(token[1..])': 'first scalar of token[1..]'}.get(p, p)
            return "%s(%s)" % (name, p)
    return str(rv[:3])


def run(ctx, res):
    res.explanation = __doc__
    res.rule_text = "one obligation per (values_only, leftover state, token shape) row of the decision table"
    lib = lib_crate(ctx.crates('default'))
    fs = [f for f in lib.lib_fns() if base.self_adt(f) == 'arguments::ArgsIter' and f.name == 'next'
          and (f.impl_trait or '').endswith('Iterator')]
    if len(fs) != 1:
        raise KeyError("ArgsIter::next not found")
    f = fs[0]
    rows = 0
    for vo in (False, True):
        for lo in (False, True):
            for tok in ref.shapes():
                rule = R(tok)
                I = Interp([lib], rule)
                leftover = ('sym', 'leftover') if lo else ('cstr', b'')
                it = I.make_adt('arguments::ArgsIter', values_only=const_int(1 if vo else 0), leftover=leftover, tokens=('sym', 'tokens'))
                ex = I.run(f, [('ref', (-1, 0, ()))], (), {(-1, 0): it})
                exp = ref.expected(vo, lo, tok)
                vi = I.field_index('arguments::ArgsIter', 'values_only')
                li = I.field_index('arguments::ArgsIter', 'leftover')
                got = set()
                for w, rv in ex:
                    post = w.store[(-1, 0)]
                    nvo = int_singleton(post[3][vi])
                    nlo = session.atom_name(post[3][li])
                    nlo = {"const:b''": 'empty', 'rest(leftover)': 'rest of leftover', 'rest(token[1..])': 'rest of token[1..]',
                           'leftover': 'leftover'}.get(nlo, nlo)
                    consumed = any(e.startswith('take') for e in w.st)
                    got.add((render(I, rv), bool(nvo), nlo, consumed))
                rows += 1
                good = got == {exp}
                key = "values_only=%s leftover=%s token=%s" % (vo, 'non-empty' if lo else 'empty', tok)
                res.oblige("row|" + key, good, sample="%s -> %s" % (key, sorted(got)), violation=None if good else dict(
                    rule='C08.classify', key="C08|classify|%s" % key,
                    msg="%s: with %s it yields %s, the statement requires %s" % (f.npath, key, sorted(got), exp)))
    if rows < 40:
        raise KeyError("decision table has only %d rows" % rows)
    # the scalar splitter used for `-abc` clusters, bit-exact (shared with C17 clause B)
    from .. import absint
    from . import C17
    old = absint.WIDEN_AT
    absint.WIDEN_AT = 16
    try:
        C17.check_pop(res, lib)
    finally:
        absint.WIDEN_AT = old
    res.exhaustive = True
    res.trusted = ["rustc MIR", "ecli-mirdump", "analysis/absint.py", "specs/arguments.py"]
