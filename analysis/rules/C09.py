"""C09 — derived command parsers accept and reject exactly what the declaration says.

Quantifier over declarations: bounded by the corpus (fixtures/decls with a hand-written oracle of what each declaration
means; the repository's own test declarations are explored for reachable panics only). Within a declaration:
 P1 generated state machine vs. statement (analysis/genfsm.py): every argument word of up to `depth` symbols (3 in the quick
    tier, 4 in the thorough tier) over {each declared long / short option, an undeclared long / short, value with a succeeding
    / failing conversion, `--`, end} is followed through the generated `FromRaw::parse` by abstract interpretation
    and must produce exactly the variant / field values / error the statement gives for that word on the oracle: names
    (kebab-case or explicit), positionals in order, options by long and short name with the value converted by the field
    type's `FromArgument`, flags, absent `Option` fields None, defaults, the sub-command parsed from the remaining tokens,
    unknown command / unexpected argument / unexpected option / unparsable value with the expected type / first missing
    required argument by its usage name. Words in which an option appears where another option's value is due are not
    constrained by the statement and are skipped.
 P2 handler after parse: in every generated `Processor::process` the user callback runs only on paths where `parse`
    returned Ok, and a parse error is returned as `ProcessError::ParseError` without calling it.
 P3 groups: `parse` tries the members in declaration order and moves on only on `UnknownCommand`.
 P4 the 16 `impl_arg_fromstr` instances each call `str::parse` at their own type and report their own type name.
 P5 `Cli::process_error` prints one line: `error: ` first, the message, CR LF + flush last (event words).
Not decided: declarations outside the corpus; words longer than the depth bound (the machine has no counters beyond the
positional index, so longer words revisit the same control states).
"""
import json
import os
from .. import facts as F
from .. import genfsm
from ..absint import Interp, TOP, UNIT, OPTION, RESULT, ok, err, none, some
from .common import lib_crate, strip_crate, EventRule
from . import C14 as base
from . import session

LEVEL = "other"
IMPORTS = [
    ("C07", None, "the generated parsers read the token stream; `no tokens` vs `one empty token` must survive the name/argument split"),
    ("C08", ("C08.classify",), "options, flags and values are recognised through ArgsIter's classification"),
]


def fmt_fields(variant, fields, order):
    return "Ok(%s{%s})" % (variant, ", ".join("%s=%s" % (f, fields[f]) for f in order))


def matches(got, exp_fields, variant, order):
    """compare a rendered Ok(...) with expected fields; None entries are wildcards"""
    if not got.startswith("Ok(%s{" % variant) and not (not order and got == "Ok(%s{})" % variant):
        return False
    body = got[len("Ok(%s{" % variant):-2]
    parts = {}
    depth = 0
    cur = ''
    for ch in body:
        if ch in '({<':
            depth += 1
        elif ch in ')}>':
            depth -= 1
        if ch == ',' and depth == 0:
            k, _, v = cur.strip().partition('=')
            parts[k] = v
            cur = ''
        else:
            cur += ch
    if cur.strip():
        k, _, v = cur.strip().partition('=')
        parts[k] = v
    for f in order:
        e = exp_fields.get(f)
        if e is None:
            continue
        if parts.get(f) != e:
            return False
    return True


def variant_of(I, enum_path, cmd_name, oracle_cmds):
    """variant (name, field names) of the enum that the command maps to: by declaration order in the oracle"""
    a = I.adts.get(enum_path)
    idx = [c['name'] for c in oracle_cmds].index(cmd_name)
    v = a['variants'][idx]
    return v['name'], [f['name'] for f in v['fields']]


def check_parsers(ctx, res, lib):
    oracle = json.load(open(os.path.join(F.VERIF, 'fixtures', 'decls', 'oracle.json')))
    crate = ctx.crates('decls')['decls']
    depth = 4 if ctx.tier == 'thorough' else 3
    nwords = 0
    ncmds = 0
    for f in crate.fns:
        if f.name != 'parse' or strip_crate(f.impl_trait) != 'service::FromRaw' or not (f.expn and 'Command' in f.expn):
            continue
        tk = F.norm_path(f.impl_self['path']) if f.impl_self and f.impl_self.get('k') == 'adt' else None
        orc = oracle.get(tk)
        if not orc or orc.get('kind') != 'command':
            continue
        probe = Interp([crate, lib], None)
        for cmd in orc['commands'] + [{'name': 'zz-undeclared-command', '_unknown': True}]:
            ncmds += 1
            syms = genfsm.alphabet(cmd)
            out, rule, I = genfsm.explore([crate, lib], f, cmd['name'], syms, depth, 'parse')
            for nt in rule.notes:
                res.add_violation(dict(rule='C09.panic', key="C09|panic|%s|%s" % (tk, cmd['name']),
                                       msg="generated parser of %s, command `%s`: %s" % (tk, cmd['name'], nt)))
            if cmd.get('_unknown'):
                good = all(rs == {'Err(UnknownCommand{})'} for rs in out.values()) and bool(out)
                res.oblige("P1|%s|unknown-command" % tk, good, violation=None if good else dict(
                    rule='C09.parse', key="C09|parse|%s|unknown" % tk,
                    msg="generated parser of %s: an undeclared command name yields %s instead of UnknownCommand" % (
                        tk, sorted(set().union(*out.values()))[:3])))
                continue
            vname, order = variant_of(probe, tk, cmd['name'], orc['commands'])
            bad = []
            for word, results in out.items():
                exp = genfsm.ref_parse(cmd, order, word)
                if exp is None:
                    continue
                nwords += 1
                if isinstance(exp, dict):
                    good = len(results) == 1 and matches(next(iter(results)), exp, vname, order)
                    want = fmt_fields(vname, {k: (v if v is not None else '*') for k, v in exp.items()}, order)
                else:
                    good = results == {exp}
                    want = exp
                res.obligations += 1
                res.evaluations += 1
                if good:
                    res.discharged += 1
                else:
                    bad.append((word, sorted(results), want))
            res.distinct.add("P1|%s|%s" % (tk, cmd['name']))
            if len(res.samples) < 8 and out:
                wd = sorted(out, key=lambda w_: (-len(w_), str(w_)))[0]
                res.samples.append("%s `%s` %s -> %s" % (tk, cmd['name'], fmt_word(wd), sorted(out[wd])[0][:160]))
            if bad:
                bad.sort(key=lambda x: (len(x[0]), str(x[0])))
                word, got, want = bad[0]
                res.add_violation(dict(
                    rule='C09.parse', key="C09|parse|%s|%s" % (tk, cmd['name']),
                    msg="generated parser of %s, command `%s`: for the arguments %s it yields %s, the declaration means %s (%d words differ)"
                        % (tk, cmd['name'], fmt_word(word), got, want, len(bad)),
                    examples=["%s: got %s want %s" % (fmt_word(w_), g, wn) for w_, g, wn in bad[:12]]))
    if ncmds < 20 or nwords < 500:
        raise KeyError("generated parsers: only %d commands / %d words explored" % (ncmds, nwords))
    res.extra['parse_commands'] = ncmds
    res.extra['parse_words'] = nwords
    res.extra['depth'] = depth


def fmt_word(word):
    out = []
    for s in word:
        if s[0] == 'L':
            out.append('--' + s[1])
        elif s[0] == 'S':
            out.append('-' + s[1])
        elif s[0] == 'V':
            out.append('<value>')
        elif s[0] == 'DD':
            out.append('--')
        elif s[0] == '!conv':
            out.append('(conversion to %s fails)' % s[1])
        elif s[0] == '!sub':
            out.append('(sub-command rejects)')
        elif s[0] == 'END':
            out.append('<end>')
        else:
            out.append(str(s))
    return " ".join(out)


class ProcRule(EventRule):
    def classify(self, I, w, ci, args):
        tr = strip_crate(ci.trait)
        if tr == 'service::FromRaw' and ci.name == 'parse':
            return 'PARSE'
        if tr in ('core::ops::function::FnMut', 'core::ops::function::FnOnce', 'core::ops::function::Fn'):
            return 'HANDLER'
        return None

    def outcomes(self, I, w, ci, args, ev):
        if ev == 'PARSE':
            ty = (ci.gargs[0] if ci.gargs else {})
            t = F.norm_path(ty.get('path')) if ty.get('k') == 'adt' else '?'
            return [('Ok:' + t, ok(('sym', 'parsed'))), ('UnknownCommand:' + t, err(('adt', 'service::ParseError', self.unk, ()))),
                    ('OtherError:' + t, err(('adt', 'service::ParseError', self.other, (('sym', 'parse-error'),))))]
        return [('Ok', ok(UNIT)), ('Err', err(('sym', 'sink-error')))]

    def step(self, I, w, ev, outcome, ci, args):
        return [w.with_st(w.st + ((ev + ':' + outcome),))]


def check_processors(ctx, res, lib):
    n = 0
    for cfg, cname in (('decls', 'decls'), ('default', 'cli-test')):
        crate = ctx.crates(cfg)[cname]
        for f in crate.fns:
            if not (f.expn and 'Derive' in f.expn and 'Command' in f.expn):
                continue
            tr = strip_crate(f.impl_trait)
            if tr == 'service::CommandProcessor' and f.name == 'process':
                rule = ProcRule([crate, lib])
                I = Interp([crate, lib], rule)
                rule.unk = I.variant_index('service::ParseError', 'UnknownCommand')
                rule.other = I.variant_index('service::ParseError', 'UnexpectedArgument')
                ex = I.run(f, [TOP, TOP, ('sym', 'raw')], (), {})
                n += 1
                for w, rv in ex:
                    evs = w.st
                    p_ok = any(e.startswith('PARSE:Ok') for e in evs)
                    h = any(e.startswith('HANDLER') for e in evs)
                    good = (h == p_ok) and (not h or evs[0].startswith('PARSE:Ok'))
                    if not p_ok:
                        rs = genfsm.render(I, rv)
                        good = good and rs.startswith('Err(ParseError{')
                    res.oblige("P2|%s|%s" % (f.npath, evs), good, violation=None if good else dict(
                        rule='C09.handler-after-parse', key="C09|handler-after-parse|%s" % f.npath,
                        msg="%s: events %s lead to %s — the handler must run exactly when parsing succeeded, and a parse error must "
                            "be returned as ProcessError::ParseError" % (f.npath, list(evs), genfsm.render(I, rv))))
            if tr == 'service::FromRaw' and f.name == 'parse' and 'CommandGroup' in f.expn:
                rule = ProcRule([crate, lib])
                I = Interp([crate, lib], rule)
                rule.unk = I.variant_index('service::ParseError', 'UnknownCommand')
                rule.other = I.variant_index('service::ParseError', 'UnexpectedArgument')
                ex = I.run(f, [('sym', 'raw')], (), {})
                n += 1
                a = I.adts.get(F.norm_path(f.impl_self['path']))
                members = []
                for v in a['variants']:
                    t = v['fields'][0]['ty']
                    members.append(F.norm_path(t.get('path')) if t.get('k') == 'adt' else t.get('s'))
                for w, rv in ex:
                    evs = [e.split(':', 2) for e in w.st]
                    tried = [e[2] for e in evs]
                    good = tried == members[:len(tried)] and all(e[1] == 'UnknownCommand' for e in evs[:-1])
                    last = evs[-1][1] if evs else ''
                    r = genfsm.render(I, rv)
                    if last == 'Ok':
                        good = good and r.startswith('Ok(')
                    elif last == 'OtherError':
                        good = good and r == 'Err(UnexpectedArgument{value=parse-error})'
                    else:
                        good = good and len(tried) == len(members) and r == 'Err(UnknownCommand{})'
                    res.oblige("P3|%s|%s" % (f.npath, w.st), good, violation=None if good else dict(
                        rule='C09.group-order', key="C09|group-order|%s" % f.npath,
                        msg="%s: member attempts %s end in %s — members must be tried in declaration order %s, passing on only on "
                            "UnknownCommand" % (f.npath, list(w.st), r, members)))
    if n < 12:
        raise KeyError("only %d generated processors / group parsers found" % n)


def check_fromstr(res, lib):
    n = 0
    for f in lib.lib_fns():
        if f.name != 'from_arg' or strip_crate(f.impl_trait) != 'arguments::FromArgument' or f.kind != 'AssocFn':
            continue
        st = f.impl_self or {}
        if st.get('k') == 'ref':
            continue        # &str: identity
        tname = st.get('s')
        n += 1
        parsed = None
        for b in f.blocks:
            t = b['term']
            if t['k'] == 'call' and (t['func'].get('path') or '').endswith('<impl str>::parse'):
                g = t['func'].get('gargs') or []
                parsed = g[0].get('s') if g else None
        # the closure building the error carries the expected-type constant
        exp = None
        for g in lib.lib_fns():
            if g.kind == 'Closure' and g.path.startswith(f.path + '::'):
                for b in g.blocks:
                    for s in b['stmts']:
                        if s['k'] == 'assign':
                            for o in (s['rv'].get('ops') or []) + [s['rv'].get('op') or {}]:
                                v = (o or {}).get('val') if isinstance(o, dict) else None
                                if isinstance(v, dict) and 'str' in v:
                                    exp = v['str']
        good = parsed == tname and exp == tname
        res.oblige("P4|%s" % tname, good, sample="FromArgument for %s: parse::<%s>, expected=%r" % (tname, parsed, exp),
                   violation=None if good else dict(
                       rule='C09.fromstr', key="C09|fromstr|%s" % tname,
                       msg="FromArgument for %s parses as %s and reports the expected type %r" % (tname, parsed, exp)))
    if n < 16:
        raise KeyError("only %d FromArgument instances found" % n)


def check_process_error(res, lib):
    ses, words, I = session.process_byte_words(lib)
    words = session.shaped(words)      # flushes are C15's; an empty text skipped = an empty write
    n = 0
    for word, status in words['Enter']:
        if not any(l.startswith('DISPATCH') and l.endswith('Err(ParseError)') for l in word):
            continue
        i = [k for k, l in enumerate(word) if l.startswith('DISPATCH')][0]
        tail = [l for l in word[i + 1:] if l.startswith('W:')]
        # framing CR LF (if dirty) then the error line
        msg = [l for l in tail if l not in ('W:prompt',)]
        if msg and msg[0] == 'W:CRLF':
            msg = msg[1:]
        if status != 'Ok':
            continue
        n += 1
        good = len(msg) >= 3 and msg[0] == 'W:const:error: ' and msg[-2] == 'W:CRLF' and all(m != 'W:CRLF' for m in msg[1:-2])
        # msg[-1] is the prompt written as W:var when the handler changed it, else filtered above
        if msg and msg[-1] != 'W:CRLF' and msg[-1] == 'W:var':
            pass
        elif msg and msg[-1] == 'W:CRLF':
            good = len(msg) >= 2 and msg[0] == 'W:const:error: ' and all(m != 'W:CRLF' for m in msg[1:-1])
        res.oblige("P5|%s" % " ".join(word), good, violation=None if good else dict(
            rule='C09.error-line', key="C09|error-line",
            msg="a parse error is not reported as a single `error: ...` line: %s" % " ".join(msg)))
    if n < 6:
        raise KeyError("only %d parse-error words found" % n)


def run(ctx, res):
    res.explanation = __doc__
    res.rule_text = ("P1: one obligation per (declaration, command, argument word up to the depth bound) whose meaning the statement "
                     "fixes; P2/P3: per abstract path of each generated processor / group parser; P4: per FromArgument instance")
    lib = lib_crate(ctx.crates('default'))
    check_parsers(ctx, res, lib)
    check_processors(ctx, res, lib)
    check_fromstr(res, lib)
    check_process_error(res, lib)
    res.exhaustive = False
    res.trusted = ["rustc MIR", "ecli-mirdump", "analysis/absint.py + genfsm.py", "fixtures/decls/oracle.json", "genfsm.ref_parse (the statement)"]
