"""Decision tables extracted by abstract interpretation (E4 style) for small pure functions."""
from .. import facts as F
from ..absint import Interp, TOP, OPTION, none, some, TRUE, FALSE, BOOL, const_int
from .common import EventRule, lib_crate
from . import session
from . import C14 as base


class FromCommandRule(EventRule):
    """HelpRequest::from_command with RawCommand accessors / ArgsIter as symbolic events."""

    def __init__(self, crates, lib):
        self.local_events = {}
        for f in lib.lib_fns():
            sa = base.self_adt(f)
            if sa == 'command::RawCommand' and f.name in ('name', 'args', 'new') and f.impl_trait is None:
                self.local_events[f.npath] = 'cmd.' + f.name
            if sa == 'arguments::ArgList' and f.name == 'args' and f.impl_trait is None:
                self.local_events[f.npath] = 'arglist.args'
            if sa == 'arguments::ArgsIter' and f.name == 'into_args' and f.impl_trait is None:
                self.local_events[f.npath] = 'iter.into_args'
            if sa == 'arguments::ArgsIter' and f.name == 'next' and f.impl_trait and f.impl_trait.endswith('Iterator'):
                self.local_events[f.npath] = 'iter.next'
        self.lib = lib
        super().__init__(crates)

    def classify(self, I, w, ci, args):
        for p in (ci.nresolved, ci.npath):
            if p in self.local_events:
                return self.local_events[p]
        if ci.npath == 'core::iter::traits::iterator::Iterator::any':
            return 'iter.any'
        body = I.find_body(ci) if hasattr(I, 'find_body') else None
        if body is not None and body.kind in ('AssocFn', 'Fn') and body.body['arg_count'] == 1 \
                and 'arguments::ArgsIter' in body.body['locals'][1]['ty'].get('s', '') \
                and body.body['locals'][1]['ty'].get('k') == 'adt' and body.body['locals'][0]['ty'].get('k') == 'bool':
            # a helper `fn(args: ArgsIter) -> bool`: the explicit-loop spelling of `args.any(pred)`
            return 'iter.anyfn'
        if ci.npath == 'core::cmp::PartialEq::eq' and len(args) == 2:
            return 'str.eq'
        if ci.npath == 'core::clone::Clone::clone':
            return 'clone'
        return None

    def outcomes(self, I, w, ci, args, ev):
        if ev == 'cmd.name':
            return [('', ('sym', 'name'))]
        if ev == 'cmd.args':
            return [('', ('sym', 'arglist'))]
        if ev == 'arglist.args':
            return [('', ('sym', 'iter@0'))]
        if ev == 'iter.next':
            arg = I.adts['arguments::Arg']
            out = [('None', none())]
            for vi, v in enumerate(arg['variants']):
                out.append((v['name'], some(('adt', 'arguments::Arg', vi, tuple(('sym', 'first') for _ in v['fields'])))))
            return out
        if ev == 'iter.into_args':
            n = sum(1 for e in w.st if e.startswith('iter.next'))
            return [('', ('sym', 'args-after-%d' % n))]
        if ev == 'cmd.new':
            return [('', ('sym', 'cmd(%s,%s)' % (session.atom_name(args[0]), session.atom_name(args[1]))))]
        if ev == 'str.eq':
            a, b = args
            def nm(x):
                if x[0] == 'ref':
                    x = I.read(w, x[1])
                return x
            a, b = nm(a), nm(b)
            if a == ('sym', 'name') and b[0] == 'cstr':
                return [('name==%s' % b[1].decode(), TRUE), ('name!=%s' % b[1].decode(), FALSE)]
            if b == ('sym', 'name') and a[0] == 'cstr':
                return [('name==%s' % a[1].decode(), TRUE), ('name!=%s' % a[1].decode(), FALSE)]
            return [('eq?', TRUE), ('eq?', FALSE)]
        if ev == 'iter.any':
            # which predicate? evaluate the closure on each Arg shape
            pred = self.any_pred(I, args[1])
            return [('any[%s]:true' % pred, TRUE), ('any[%s]:false' % pred, FALSE)]
        if ev == 'iter.anyfn':
            pred = self.any_pred_fn(I, I.find_body(ci))
            return [('any[%s]:true' % pred, TRUE), ('any[%s]:false' % pred, FALSE)]
        if ev == 'clone':
            a = args[0]
            if a[0] == 'ref':
                return [('', I.read(w, a[1]))]
            return [('', a)]
        return [('', TOP)]

    def arg_tests(self, I):
        arg = I.adts['arguments::Arg']
        from ..absint import mk_int
        tests = []
        for vi, v in enumerate(arg['variants']):
            if v['name'] == 'LongOption':
                tests += [(('adt', 'arguments::Arg', vi, (('cstr', b'help'),)), 'Long(help)'),
                          (('adt', 'arguments::Arg', vi, (('cstr', b'helpx'),)), 'Long(helpx)'),
                          (('adt', 'arguments::Arg', vi, (('cstr', b'h'),)), 'Long(h)')]
            elif v['name'] == 'ShortOption':
                tests += [(('adt', 'arguments::Arg', vi, (const_int(ord('h')),)), 'Short(h)'),
                          (('adt', 'arguments::Arg', vi, (const_int(ord('x')),)), 'Short(x)'),
                          (('adt', 'arguments::Arg', vi, (const_int(ord('H')),)), 'Short(H)')]
                for nm, lo, hi in (('Short(other 1-byte)', 0x20, 0x7E), ('Short(2-byte)', 0x80, 0x7FF)):
                    tests.append((('adt', 'arguments::Arg', vi, (mk_int(x for x in range(lo, hi + 1) if x != ord('h')),)), nm))
                for cp in (0x2068, 0x1F468, 0x10068, 0x100068, 0x4E2D):
                    tests.append((('adt', 'arguments::Arg', vi, (const_int(cp),)), 'Short(U+%04X)' % cp))
            elif v['name'] == 'Value':
                tests += [(('adt', 'arguments::Arg', vi, (('cstr', b'help'),)), 'Value(help)'),
                          (('adt', 'arguments::Arg', vi, (('cstr', b'-h'),)), 'Value(-h)')]
            else:
                tests += [(('adt', 'arguments::Arg', vi, ()), v['name'])]
        return tests

    def any_pred_fn(self, I, body):
        """Describe a helper `fn(args: ArgsIter) -> bool` as an `any` predicate: the set S of argument shapes x with
        f([x]) = true, provided f([]) = false and f([y, x]) = (x in S) for a y outside S and f([x, y]) = true for x in S
        (no state is carried from one element to the next and the first hit decides); otherwise `?`."""
        next_np = [np_ for np_, ev in self.local_events.items() if ev == 'iter.next']
        tests = self.arg_tests(I)

        class Scripted:
            def inline_ok(self_, I2, ci, b):
                return False

            def on_call(self_, I2, w, ci, args):
                if (ci.nresolved in next_np) or (ci.npath in next_np):
                    st = w.st
                    if not st:
                        return [(w, none())]
                    return [(w.with_st(st[1:]), some(st[0]))]
                return None

        def run_on(stream):
            sub = Interp(I.crates, Scripted())
            outs = set()
            try:
                for w2, rv in sub.run(body, [('sym', 'theiter')], tuple(stream), {}):
                    outs |= set(rv[1]) if (rv[0] == 'int' and rv[2] is None) else {0, 1}
            except Exception:
                return {0, 1}
            return outs
        if run_on([]) != {0}:
            return '?'
        acc, members, outsiders = [], [], []
        for val, name in tests:
            o = run_on([val])
            if o == {1}:
                acc.append(name)
                members.append(val)
            elif o == {0}:
                outsiders.append(val)
            else:
                acc.append(name + '?')
        if not outsiders or not members:
            return ",".join(acc) or '?'
        y = outsiders[0]
        for val, name in tests:
            want = {1} if val in members else {0}
            if run_on([y, val]) != want or (val in members and run_on([val, y]) != {1}):
                return '?(not an any-predicate at %s)' % name
        return ",".join(acc)

    def any_pred(self, I, clos):
        """Describe the closure given to `any` by evaluating it on every Arg shape with the relevant constants."""
        if clos[0] != 'closure':
            return '?'
        body = I.by_path.get(F.raw_key(clos[1]))
        if body is None:
            return '?'
        arg = I.adts['arguments::Arg']
        acc = []
        tests = []
        for vi, v in enumerate(arg['variants']):
            if v['name'] == 'LongOption':
                tests += [(('adt', 'arguments::Arg', vi, (('cstr', b'help'),)), 'Long(help)'),
                          (('adt', 'arguments::Arg', vi, (('cstr', b'helpx'),)), 'Long(helpx)'),
                          (('adt', 'arguments::Arg', vi, (('cstr', b'h'),)), 'Long(h)')]
            elif v['name'] == 'ShortOption':
                tests += [(('adt', 'arguments::Arg', vi, (const_int(ord('h')),)), 'Short(h)'),
                          (('adt', 'arguments::Arg', vi, (const_int(ord('x')),)), 'Short(x)'),
                          (('adt', 'arguments::Arg', vi, (const_int(ord('H')),)), 'Short(H)')]
                # every other scalar, as one value set per encoded length: none of them is `h`
                from ..absint import mk_int
                for nm, lo, hi in (('Short(other 1-byte)', 0x20, 0x7E), ('Short(2-byte)', 0x80, 0x7FF)):
                    tests.append((('adt', 'arguments::Arg', vi, (mk_int(x for x in range(lo, hi + 1) if x != ord('h')),)), nm))
                # 3- and 4-byte scalars: those that agree with `h` in their low 8 / 16 bits (truncating casts), and a plain one
                for cp in (0x2068, 0x1F468, 0x10068, 0x100068, 0x4E2D):
                    tests.append((('adt', 'arguments::Arg', vi, (const_int(cp),)), 'Short(U+%04X)' % cp))
            elif v['name'] == 'Value':
                tests += [(('adt', 'arguments::Arg', vi, (('cstr', b'help'),)), 'Value(help)'),
                          (('adt', 'arguments::Arg', vi, (('cstr', b'-h'),)), 'Value(-h)')]
            else:
                tests += [(('adt', 'arguments::Arg', vi, ()), v['name'])]
        sub = Interp(I.crates, None)
        for val, name in tests:
            env = ('ref', ('const', clos))
            try:
                r = sub.run(body, [env, val], None, {})
            except Exception:
                return '?'
            outs = set()
            for w2, rv in r:
                if rv[0] == 'int' and rv[2] is None:
                    outs |= set(rv[1])
                else:
                    outs |= {0, 1}
            if outs == {1}:
                acc.append(name)
            elif outs != {0}:
                acc.append(name + '?')
        return ",".join(acc)

    def step(self, I, w, ev, outcome, ci, args):
        if ev in ('clone', 'cmd.args', 'arglist.args', 'cmd.name'):
            return [w]
        if ev == 'iter.anyfn':
            ev = 'iter.any'       # the helper is the explicit-loop spelling of `any`
        return [w.with_st(w.st + (ev + (':' + outcome if outcome else ''),))]


EXPECTED_ANY = 'Long(help),Short(h)'


def check_from_command(ctx, res):
    lib = lib_crate(ctx.crates('default'))
    ses = session.Session([lib], lib)
    f = ses.from_command
    rule = FromCommandRule([lib], lib)
    need = {'cmd.name', 'cmd.args', 'arglist.args', 'iter.next', 'iter.into_args', 'cmd.new'}
    if not need <= set(rule.local_events.values()):
        raise KeyError("from_command: anchors missing: %s" % sorted(need - set(rule.local_events.values())))
    I = Interp([lib], rule)
    exits = I.run(f, [('ref', ('const', ('sym', 'thecmd')))], (), {})
    hr = I.adts['help::HelpRequest']
    vnames = [v['name'] for v in hr['variants']]
    rows = []
    for w, rv in exits:
        if rv[0] == 'adt' and rv[1] == OPTION:
            if rv[2] == 0:
                out = 'None'
            else:
                x = rv[3][0]
                if x[0] == 'adt':
                    out = vnames[x[2]] + ('(%s)' % session.atom_name(x[3][0]) if x[3] else '')
                else:
                    out = '?'
        else:
            out = '?'
        rows.append((w.st, out))
    table = {}
    for st, out in rows:
        table.setdefault(st, set()).add(out)
    res.extra['from_command_table'] = {" ".join(k): sorted(v) for k, v in table.items()}
    expected = {
        ('str.eq:name==help', 'iter.next:None'): {'All'},
        ('str.eq:name==help', 'iter.next:Value', 'iter.into_args', 'cmd.new'): {'Command(cmd(first,args-after-1))'},
        ('str.eq:name!=help', 'iter.any:any[%s]:true' % EXPECTED_ANY): {'Command(thecmd)'},
        ('str.eq:name!=help', 'iter.any:any[%s]:false' % EXPECTED_ANY): {'None'},
    }
    arg = I.adts['arguments::Arg']
    for v in arg['variants']:
        if v['name'] != 'Value':
            expected[('str.eq:name==help', 'iter.next:' + v['name'])] = {'None'}
    for k in sorted(set(expected) | set(table), key=str):
        got = table.get(k)
        exp = expected.get(k)
        good = got == exp
        res.oblige("R2|%s" % " ".join(k), good, sample="from_command: %s -> %s" % (" ".join(k), sorted(got) if got else None),
                   violation=None if good else dict(
                       rule='C12.from_command', key="C12|from_command|%s" % " ".join(k)[:80],
                       msg="%s: decision row [%s] yields %s, the statement requires %s" % (
                           f.npath, " ".join(k), sorted(got) if got else 'no such path', sorted(exp) if exp else 'no such path')))
