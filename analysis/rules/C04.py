"""C04 — the byte stream decodes into key events: chars, terminators, CSI arrows.

Decided (exact on the quantified language): `InputGenerator`'s byte-accepting method, with the scalar decoder and
the bitflags helpers inlined, is explored abstractly over byte classes in lock step with the reference decoder of
specs/keydecoder.py (written from the statement), along every stream made of key units; in every reachable
pair of states and for every byte class the two outputs agree (no event | Control(k) | Char(the scalar's bytes)).
The product is explored to closure, so the result covers streams of any length. DEL's output is unconstrained.
Also decided: the implementation's answer is a function of (state, byte).
"""
import sys
from .. import facts as F
from ..absint import Interp, TOP, OPTION, none, some, const_int, int_singleton, Inconclusive
from .. import fsm
from .common import lib_crate
from . import C14 as base
from . import C02

sys.path.insert(0, F.VERIF)
from specs import keydecoder as ref  # noqa: E402

LEVEL = "other"


def find_ctor(lib):
    c = [f for f in lib.lib_fns() if base.self_adt(f) == 'input::InputGenerator' and f.impl_trait is None
         and f.body['arg_count'] == 0 and 'InputGenerator' in base.ret_ty(f).get('s', '')]
    if len(c) != 1:
        raise KeyError("InputGenerator constructor: %d candidates" % len(c))
    return c[0]


class Inline:
    def on_call(self, I, w, ci, args):
        return None

    def inline_ok(self, I, ci, body):
        sa = base.self_adt(body)
        if sa in ('input::InputGenerator', 'utf8::Utf8Accum'):
            return True
        # bitflags-generated helpers live in the `input` module
        return body.npath.startswith(('input::', '<input::', 'utf8::', '<utf8::'))


def render(I, w, rv):
    if rv[0] == 'adt' and rv[1] == OPTION:
        if rv[2] == 0:
            return None
        x = rv[3][0]
        if x[0] == 'adt' and x[1] == 'input::Input':
            inp = I.adts['input::Input']['variants'][x[2]]['name']
            if inp == 'Control':
                c = x[3][0]
                if c[0] == 'adt':
                    return ('Control', I.adts['input::ControlInput']['variants'][c[2]]['name'])
                return ('?', 'control not constant')
            r = C02.render(I, w, some(x[3][0]))
            if r[0] == 'Some':
                return ('Char', r[1])
            return ('?', str(r))
    return ('?', str(rv[:3]))


def fmt(out):
    if out is None:
        return 'nothing'
    if out == 'ANY':
        return 'anything'
    if out[0] == 'Char':
        return 'Char ' + " ".join("[%s]" % (fsm.cls_name(x) if x else '⊤') for x in out[1])
    return "%s(%s)" % out


def run(ctx, res):
    res.explanation = __doc__
    res.rule_text = "one obligation per (reachable implementation/reference state pair, byte class allowed by the stream language)"
    lib = lib_crate(ctx.crates('default'))
    acc = base.find_accept(lib)
    I = Interp([lib], Inline())
    ctor = find_ctor(lib)
    ex = I.run(ctor, [], None, {})
    if len(ex) != 1:
        raise Inconclusive("InputGenerator constructor has %d abstract results" % len(ex))
    init = ex[0][1]
    fns = [f for f in lib.lib_fns() if base.self_adt(f) in ('input::InputGenerator', 'utf8::Utf8Accum')]
    classes = fsm.partition_at(fsm.int_cuts(fsm.with_callees(lib, fns)) | ref.boundaries())
    ui = I.field_index('input::InputGenerator', 'utf8')
    unorm = C02.make_normalise(I)

    def norm(v):
        if v[0] != 'adt':
            return v
        fs = list(v[3])
        fs[ui] = unorm(I, fs[ui])
        return ('adt', v[1], v[2], tuple(fs))

    start = (norm(init), ref.INIT)
    seen = {start: ()}
    work = [start]
    bad = []
    npairs = 0
    while work:
        nxt = []
        for pair in work:
            s, r = pair
            word = seen[pair]
            for c in classes:
                r2, rout, inlang = ref.step(r, c)
                if not inlang:
                    continue
                npairs += 1
                exits = I.run(acc, [('ref', (-1, 0, ())), ('int', c, None)], None, {(-1, 0): s})
                outs = {(norm(w.store[(-1, 0)]), render(I, w, rv)) for w, rv in exits}
                pre = " ".join("[%s]" % fsm.cls_name(x) for x in word)
                det = len(outs) == 1
                res.oblige("det|%s|%s" % (pre, fsm.cls_name(c)), det, violation=None if det else dict(
                    rule='C04.deterministic', key="C04|deterministic|%s" % acc.npath,
                    msg="%s: after %s the byte class [%s] has %d abstract outcomes" % (acc.npath, pre or 'start', fsm.cls_name(c), len(outs))))
                for ns, out in outs:
                    good = rout == 'ANY' or out == rout
                    res.oblige("eq|%s|%s" % (pre, fsm.cls_name(c)), good,
                               sample="%s + [%s] -> %s" % (pre or 'start', fsm.cls_name(c), fmt(out)))
                    if not good:
                        bad.append((word + (c,), fmt(out), fmt(rout)))
                        continue       # do not explore beyond a disagreement
                    np_ = (ns, r2)
                    if np_ not in seen:
                        seen[np_] = word + (c,)
                        nxt.append(np_)
                        if len(seen) > 6000:
                            raise Inconclusive("product state space exceeds 6000")
        work = nxt
    res.extra['product_states'] = len(seen)
    res.extra['classes'] = [fsm.cls_name(c) for c in classes]
    res.extra['function'] = acc.npath
    if len(seen) < 10 or npairs < 100:
        raise KeyError("product exploration too small (%d states)" % len(seen))
    if bad:
        bad.sort(key=lambda x: len(x[0]))
        w, got, want = bad[0]
        res.add_violation(dict(
            rule='C04.decode', key="C04|decode|%s" % acc.npath,
            msg="%s disagrees with the reference decoder in %d (state, byte) cases; shortest stream: %s : the last byte yields %s, "
                "the statement requires %s" % (acc.npath, len(bad), " ".join("[%s]" % fsm.cls_name(x) for x in w), got, want),
            examples=["%s : got %s, want %s" % (" ".join("[%s]" % fsm.cls_name(x) for x in w), g, wn) for w, g, wn in bad[:30]],
            count=len(bad)))
    res.exhaustive = True
    res.trusted = ["rustc MIR", "ecli-mirdump", "analysis/absint.py + fsm.py", "specs/keydecoder.py, specs/utf8.py"]
