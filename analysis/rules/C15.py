"""C15 — everything written has been flushed when a call returns successfully.

Typestate {clean, dirty(first unflushed write site)} over the interprocedural CFG of every public
entry point of `Cli` (and the builder), for every feature configuration of the tier:
  SINK_WRITE (embedded_io::Write::{write,write_all,write_fmt} on the sink parameter)  -> dirty
  user code that is handed a Writer / CliHandle (handler, help and list callbacks, closure) -> dirty
  SINK_FLUSH returning Ok                                                              -> clean
Obligation: every exit whose return value is Ok (or not a Result) is `clean`, given `clean` at entry.
"""
from .. import facts as F
from ..absint import Interp, TOP, U8_ANY, UNIT
from .common import EventRule, cli_entry_store, ret_is_err, lib_crate

LEVEL = "other"


def gives_writer(ci):
    for t in ci.arg_tys:
        s = t.get('s', '')
        if 'Writer<' in s or 'CliHandle<' in s:
            return True
    return False


class Rule(EventRule):
    def step(self, I, w, ev, outcome, ci, args):
        st = w.st
        if ev == 'SINK_WRITE':
            if st == 'clean':
                st = ('dirty',) + ci.where(I)
        elif ev == 'SINK_FLUSH':
            if outcome == 'Ok':
                st = 'clean'
        elif ev == 'DISPATCH' or ev.startswith('CB'):
            if gives_writer(ci) and st == 'clean':
                st = ('dirty',) + ci.where(I)
        return [w.with_st(st)]


def entries(lib):
    out = []
    for f in lib.lib_fns():
        if f.kind != 'AssocFn' or f.impl_trait is not None or not f.impl_self:
            continue
        sp = F.norm_path(f.impl_self.get('path')) if f.impl_self.get('k') == 'adt' else None
        if sp == 'cli::Cli' and f.vis in ('pub', 'crate'):
            out.append(f)
        elif sp == 'builder::CliBuilder' and f.name == 'build':
            out.append(f)
    return out


def entry_args(I, f, self_ref):
    args = []
    for i in range(1, f.body['arg_count'] + 1):
        ty = f.body['locals'][i]['ty']
        if ty.get('k') == 'ref' and ty['to'].get('k') == 'adt' and F.norm_path(ty['to']['path']) == 'cli::Cli':
            args.append(self_ref)
        elif ty.get('k') == 'int' and ty['w'] == 8:
            args.append(U8_ANY)
        else:
            args.append(TOP)
    return args


def run(ctx, res):
    res.explanation = __doc__
    res.rule_text = ("one obligation per (feature config, public entry point, distinct abstract exit state); "
                     "non-trivial = the exit is reachable in the abstract product")
    total_sites = {}
    for cfg in ctx.feature_configs():
        crates = ctx.crates(cfg)
        lib = lib_crate(crates)
        rule = Rule([lib])
        ents = entries(lib)
        names = sorted(e.npath for e in ents)
        for need in ('cli::Cli::process_byte', 'cli::Cli::write', 'cli::Cli::set_prompt', 'builder::CliBuilder::build'):
            if need not in names:
                raise KeyError("entry point %s not found in config %s" % (need, cfg))
        for f in ents:
            I = Interp([lib], rule)
            store, self_ref = cli_entry_store(I)
            exits = I.run(f, entry_args(I, f, self_ref), 'clean', store)
            if not exits:
                raise KeyError("no exit reached for %s (%s)" % (f.npath, cfg))
            for w, rv in exits:
                is_err = ret_is_err(rv)
                good = is_err or w.st == 'clean'
                key = "%s|%s|%s|%s" % (cfg, f.npath, 'Err' if is_err else 'Ok', w.st if w.st == 'clean' else w.st[1])
                viol = None
                if not good:
                    viol = dict(rule='C15.unflushed',
                                key="C15|unflushed|%s|%s" % (f.npath, w.st[1]),
                                msg="%s can return Ok with unflushed output: first unflushed write at %s (%s) [config %s]"
                                    % (f.npath, w.st[2], w.st[1], cfg),
                                entry=f.npath, site=w.st[1], span=w.st[2], config=cfg)
                res.oblige(key, good, sample=key, violation=viol)
            res.extra.setdefault('functions_analysed', set()).update(I.stats['fns_entered'])
        for ev, ss in rule.sites.items():
            total_sites.setdefault(ev, set()).update(ss)
        res.merge_rule(rule)
    res.extra['functions_analysed'] = sorted(res.extra.get('functions_analysed', []))
    res.extra['event_sites'] = {k: sorted(v) for k, v in total_sites.items()}
    # fail closed when the events the rule reasons about are not found at all
    for ev, floor in (('SINK_WRITE', 1), ('SINK_FLUSH', 2), ('DISPATCH', 1)):
        if len(total_sites.get(ev, ())) < floor:
            raise KeyError("event %s matched %d sites (< %d): rule would be vacuous" % (ev, len(total_sites.get(ev, ())), floor))
    res.exhaustive = True
    res.assumptions = ["Cli.editor and Cli.input_generator are Some at entry (inductive invariant established by C14)",
                       "panic/unwind edges are not followed (C03's subject)"]
