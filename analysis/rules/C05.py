"""C05 — the line editor behaves as an ideal editor over Unicode scalar values.

Decided clauses so far:
 K  key -> operation table (event words of process_byte, every path and outcome): Char -> exactly one
    `insert` of the typed text and nothing else; Backspace -> `move_left`, then `remove` iff it moved (no sink
    write between them, C14c); Left -> `move_left` only; Right -> `move_right` only; Up/Down -> history then
    reset+insert (C10); Tab -> `autocompletion` only; Enter -> rewrite+reset only (C01). No other arm touches
    the editor.
 P  purity of rejections (effect analysis of the Editor methods, no inlining): on the exits of `insert` that
    return None, of `move_left`/`move_right` that return false, no field of the editor is written and no `&mut`
    to its buffer is handed out ("a rejected character changes nothing"; "stop at the ends").
 M  `move_left`/`move_right` change the cursor by exactly one on their `true` exit and touch nothing else;
    `move_left` moves iff cursor > 0.
 G  see C03 for the capacity guard and the byte-move bounds of insert/remove (linear obligations).
Not decided: equality with the ideal editor over arbitrary histories (needs `char_byte_index` to be the scalar
offset function: C17 counts the premises).
"""
from .. import facts as F
from ..absint import Interp, TOP, OPTION, none, some, const_int, UINT_ANY
from .common import EventRule, lib_crate, ret_is_err
from . import session
from . import C14 as base

LEVEL = "other"
IMPORTS = [
    ("C17", ("C17.counting", "C17.A"), "the editor's character units are `char_count` / `char_byte_index`, which must count scalars"),
]

ALLOWED = {
    'Char': [r'E.insert(typed)'],
    'Backspace': ['E.move_left', 'E.remove'],
    'Back': ['E.move_left'],
    'Forward': ['E.move_right'],
    'Tab': ['E.autocompletion'],
    'Up': None, 'Down': None, 'Enter': None, 'none': [],
}


def run(ctx, res):
    res.explanation = __doc__
    res.rule_text = "K: one obligation per (config, key, event word); P/M: one per abstract exit of the Editor method"
    for cfg in ctx.feature_configs():
        lib = lib_crate(ctx.crates(cfg))
        eff = base.editor_effects(lib)
        pure = {e['name'] for e in eff.values()}
        ses, words, I = session.process_byte_words(lib)
        words = session.shaped(words)      # flushes are C15's; an empty text skipped = an empty write
        mutators = {'E.' + e['name'] for e in eff.values()}
        for key, ws in words.items():
            for word, status in ws:
                muts = [l.split(':')[0] for l in word if l.split(':')[0].split('(')[0] in mutators]
                outcomes = {l.split(':')[0]: l.split(':')[-1] for l in word if ':' in l}
                sw = " ".join(word)
                def ob(clause, good, msg):
                    res.oblige("K|%s|%s|%s|%s|%s" % (cfg, key, clause, status, sw), good,
                               violation=None if good else dict(rule='C05.' + clause, key="C05|%s|%s" % (clause, key),
                                                                msg="key %s: %s; word: %s [%s]" % (key, msg, sw, cfg)))
                if key == 'Char':
                    ob('insert-once', muts == ['E.insert(typed)'], "a typed character is not inserted exactly once (and nothing else)")
                elif key == 'Backspace':
                    ml = outcomes.get('E.move_left')
                    if ml == 'true':
                        ob('backspace', muts[:2] == ['E.move_left', 'E.remove'] and len(muts) == 2,
                           "Backspace is not move_left followed by remove")
                        i = word.index('E.move_left:true')
                        ob('backspace-adjacent', len(word) > i + 1 and word[i + 1] == 'E.remove',
                           "something happens between move_left and remove")
                    else:
                        ob('backspace-at-start', muts == ['E.move_left'], "Backspace at the start of the line does something")
                elif key == 'Back':
                    ob('left', muts == ['E.move_left'], "Left is not exactly move_left")
                elif key == 'Forward':
                    ob('right', muts == ['E.move_right'], "Right is not exactly move_right")
                elif key == 'Tab':
                    ob('tab', muts in ([], ['E.autocompletion']), "Tab mutates the editor other than through autocompletion")
                elif key == 'none':
                    ob('no-key', muts == [], "a byte that is not a key mutates the editor")
        # P / M: effect analysis
        for np_, e in eff.items():
            for lab in ('None', 'false'):
                if e['name'] in ('insert',) and lab == 'None' or e['name'] in ('move_left', 'move_right') and lab == 'false':
                    good = lab in e['noop_outcomes']
                    res.oblige("P|%s|%s|%s" % (cfg, np_, lab), good, sample="P %s:%s is a no-op" % (np_, lab),
                               violation=None if good else dict(
                                   rule='C05.reject-pure', key="C05|reject-pure|%s|%s" % (np_, lab),
                                   msg="%s: the exit returning %s can follow a write to the editor (a rejected operation must change nothing)" % (np_, lab)))
        check_moves(res, cfg, lib)
        check_char_units(res, cfg, lib)
    check_content(ctx, res)
    check_unit_mix(ctx, res)
    res.exhaustive = True


def check_unit_mix(ctx, res):
    """U2: characters and bytes are never mixed in the editor: in every method of `Editor` (linear domain, every path),
    no comparison, slice index or bounds check combines a character count (the cursor, a `char_count` result) with a byte
    quantity (`valid`, lengths, capacities, byte offsets), `char_byte_index` is never given a byte quantity as character
    index, and at every exit the cursor holds a character quantity and `valid` a byte quantity."""
    from .. import absint
    from . import C03
    lib = lib_crate(ctx.crates('default'))
    old = absint.WIDEN_AT
    absint.WIDEN_AT = 16
    try:
        rule = C03.E3(lib, {}, {})
        inv, keymap = C03.inventory(lib)
        rule.keymap = keymap
        n = 0
        for f in session.methods_of(lib, 'editor::Editor'):
            if f.kind != 'AssocFn' or f.body['arg_count'] < 1 or f.body['locals'][1]['ty'].get('k') != 'ref':
                continue
            for label, selfv, facts in C03.editor_entries(Interp([lib], rule)):
                I = Interp([lib], rule, max_worlds=60000)
                rule.ctx = 'Editor::' + f.name
                args, _ = C03.sym_args(rule, f, ('ref', (-1, 0, ())))
                exits = I.run(f, args, facts, {(-1, 0): selfv})
                n += 1
                ci_, vi_ = I.field_index('editor::Editor', 'cursor'), I.field_index('editor::Editor', 'valid')
                for w, rv in exits:
                    ed = w.store[(-1, 0)]
                    cur, val = C03.L(ed[3][ci_]), C03.L(ed[3][vi_])
                    bad_c = cur is not None and [a for a, k in cur[0] if a.startswith(C03.BYTE_UNIT)]
                    bad_v = val is not None and [a for a, k in val[0] if a.startswith(C03.CHAR_UNIT)]
                    res.oblige("U2|exit|%s|%s|%s" % (f.name, cur, val), not bad_c and not bad_v,
                               violation=None if not (bad_c or bad_v) else dict(
                                   rule='C05.units-mixed', key="C05|units-mixed|%s|exit" % f.npath,
                                   msg="%s leaves %s: the cursor counts characters and `valid` counts bytes" % (
                                       f.npath, ("cursor = a byte quantity (%s)" % ", ".join(bad_c)) if bad_c else
                                       ("valid = a character quantity (%s)" % ", ".join(bad_v)))))
        seen = set()
        for fnp, what, ch, by in rule.mixed:
            seen.add(fnp)
            res.oblige("U2|mix|%s|%s|%s|%s" % (fnp, what, ch, by), False, violation=dict(
                rule='C05.units-mixed', key="C05|units-mixed|%s|%s" % (fnp, what),
                msg="%s: a %s combines a character quantity (%s) with a byte quantity (%s); they agree only for one-byte characters"
                    % (fnp, what, ", ".join(ch) or '-', ", ".join(by))))
        res.oblige("U2|methods-analysed|%d" % n, n >= 8, violation=None if n >= 8 else dict(
            rule='ANCHOR', key="C05|units-mixed|anchor", msg="only %d Editor methods analysed for unit consistency" % n))
    finally:
        absint.WIDEN_AT = old


def check_content(ctx, res):
    """C: the effect of `insert` / `remove` / `clear` on the buffer *content*, for every content, buffer size, cursor and
    text (segment algebra over the linear domain, rules/content.py): with i = byte offset of the cursor's character
    (`char_byte_index(text(), cursor)`, or the end of the text when there is none),
      insert(t) accepted:  text' = text[..i] ++ t ++ text[i..],  valid' = valid + len(t),  cursor' = cursor + chars(t),
                           and the returned str is exactly the inserted copy;
      remove():            text' = text[..i] ++ text[j..] with j the offset of the next character (or the end),
                           valid' = valid - (j - i), cursor unchanged; nothing changes when the cursor is at the end;
      clear():             valid' = cursor' = 0."""
    from .. import absint, fm
    from . import C03, content
    from .content import ZERO, Undecided
    lib = lib_crate(ctx.crates('default'))
    old = absint.WIDEN_AT
    absint.WIDEN_AT = 16
    try:
        rule = content.ContentE3(lib)
        inv, keymap = C03.inventory(lib)
        rule.keymap = keymap
        meths = {x.name: x for x in session.methods_of(lib, 'editor::Editor')}
        valid0, cursor0, cap = fm.lin_atom('valid0'), fm.lin_atom('cursor0'), fm.lin_atom('cap(B)')
        n_exits = 0

        def judge(w, name, rv, cur, val, cbis, fx, args, ob, eq):
            if name == 'clear':
                ob('fields', eq(cur, ZERO) and eq(val, ZERO), "clear() does not leave cursor = valid = 0")
                ob('no-write', not fx, "clear() writes into the buffer")
                return
            # the cursor's byte offset: one char_byte_index(text(), cursor) on the whole text
            first = cbis[0] if cbis else None
            anchored = first is not None and first[2] == 'B' and first[3] == ZERO and eq(first[4], valid0) and eq(first[5], cursor0)
            if name == 'insert' and rv[0] == 'adt' and rv[2] == 0:
                ob('reject-unchanged', not fx and eq(cur, cursor0) and eq(val, valid0),
                   "the rejecting exit writes into the buffer or changes cursor / valid")
                return
            if name == 'insert':
                ob('cursor-offset', anchored and len(cbis) == 1,
                   "the insertion point is not char_byte_index(text(), cursor) (found %d conversions)" % len(cbis))
                if not anchored:
                    return
                i = fm.lin_atom(first[1]) if first[1] else valid0
                t = args[1]
                tl = C03.L(t[2])
                tname = content.base_of(t[1])
                c = content.replay(rule, w, 'B', cap)
                newlen = fm.add(valid0, tl)
                got = c.prefix(newlen)
                want = [(ZERO, i, ('old', ZERO)), (i, fm.add(i, tl), ('text', tname, fm.add(ZERO, i, -1))),
                        (fm.add(i, tl), newlen, ('old', fm.add(ZERO, tl, -1)))]
                same, why = c.same(got, want)
                ob('inserted-at-cursor', same, "the text after an accepted insert is not text[..i] ++ t ++ text[i..]: got " + why)
                ob('valid', eq(val, newlen), "valid' != valid + len(t) after an accepted insert")
                ccs = [m for m in content.markers(w, 'cc') if m[1][:2] == ('text', tname) and eq(m[2], tl)]
                ob('cursor', bool(ccs) and len(ccs) == 1 and eq(cur, fm.add(cursor0, fm.lin_atom(ccs[0][0]))),
                   "cursor' != cursor + char_count(t) after an accepted insert")
                loc = rule.where(w, rv[3][0]) if rv[0] == 'adt' and rv[2] == 1 else None
                ob('returns-inserted', loc is not None and loc[0] == 'B' and eq(loc[1], i) and eq(C03.L(rv[3][0][2]), tl),
                   "the str returned by insert is not the inserted copy (buffer[i..i + len(t)])")
                return
            # remove
            if first is None or not anchored:
                ob('cursor-offset', False, "the removal point is not char_byte_index(text(), cursor)")
                return
            if first[1] is None:
                ob('end-unchanged', not fx and eq(cur, cursor0) and eq(val, valid0),
                   "remove() with the cursor at the end of the text changes the editor")
                return
            i = fm.lin_atom(first[1])
            second = cbis[1] if len(cbis) == 2 else None
            ok2 = second is not None and second[2] == 'B' and eq(second[3], i) and eq(second[4], fm.add(valid0, i, -1)) \
                and eq(second[5], fm.lin_const(1))
            ob('next-character', ok2, "the end of the removed character is not char_byte_index(text[i..], 1) (one whole character)")
            if not ok2:
                return
            j = fm.add(i, fm.lin_atom(second[1])) if second[1] else valid0
            width = fm.add(j, i, -1)
            newlen = fm.add(valid0, width, -1)
            c = content.replay(rule, w, 'B', cap)
            got = c.prefix(newlen)
            want = [(ZERO, i, ('old', ZERO)), (i, newlen, ('old', width))]
            same, why = c.same(got, want)
            ob('removed-at-cursor', same, "the text after remove() is not text[..i] ++ text[j..]: got " + why)
            ob('valid', eq(val, newlen), "valid' != valid - (j - i) after remove()")
            ob('cursor', eq(cur, cursor0), "remove() moves the cursor")

        for name in ('insert', 'remove', 'clear'):
            f = meths[name]
            for label, selfv, facts in C03.editor_entries(Interp([lib], rule)):
                I = Interp([lib], rule, max_worlds=60000)
                rule.ctx = 'Editor::' + name
                args, _ = C03.sym_args(rule, f, ('ref', (-1, 0, ())))
                exits = I.run(f, args, facts, {(-1, 0): selfv})
                ci_, vi_ = I.field_index('editor::Editor', 'cursor'), I.field_index('editor::Editor', 'valid')
                if not exits:
                    raise KeyError("Editor::%s has no exit in the linear analysis" % name)
                for w0, rv in exits:
                    n_exits += 1
                    ed = w0.store[(-1, 0)]
                    cur, val = C03.L(ed[3][ci_]), C03.L(ed[3][vi_])
                    cbis = sorted(content.markers(w0, 'cbi'), key=lambda m: m[0])
                    fx = [e for e in content.effects_of(w0) if e[1] == 'B']

                    def ob(clause, good, msg, _name=name):
                        res.oblige("C|%s|%s|%s|%d" % (_name, clause, msg[:60], n_exits), good,
                                   sample="content %s %s" % (_name, clause),
                                   violation=None if good else dict(rule='C05.content', key="C05|content|%s|%s" % (_name, clause),
                                                                    msg="editor::Editor::%s: %s" % (_name, msg)))

                    def body(w, name=name, rv=rv, cur=cur, val=val, cbis=cbis, fx=fx, args=args, ob=ob):
                        def eq(a, b):
                            return a is not None and b is not None and rule.prove(w, fm.le(a, b)) and rule.prove(w, fm.le(b, a))
                        judge(w, name, rv, cur, val, cbis, fx, args, ob, eq)
                    try:
                        content.cases(rule, w0, body)
                    except Undecided as e:
                        ob('undecided', False, "the buffer content at an exit cannot be decided: %s" % e)
        if n_exits < 7:
            raise KeyError("Editor insert/remove/clear: only %d exits analysed" % n_exits)
    finally:
        absint.WIDEN_AT = old


def check_char_units(res, cfg, lib):
    """U: the cursor is a *character* index: `move_right` is guarded by `cursor < len()` (the character count, not the
    byte count) and a successful completion leaves the cursor at `len()`."""
    lens = [f for f in lib.lib_fns() if base.self_adt(f) == 'editor::Editor' and f.name == 'len' and f.impl_trait is None]
    if len(lens) != 1:
        raise KeyError("Editor::len not found")
    len_np = lens[0].npath
    # Editor::len itself: the character count of the current text
    class LenRule:
        def inline_ok(self, I, ci, body):
            return False

        def on_call(self, I, w, ci, args):
            if (ci.nresolved or ci.npath or '').endswith('utils::char_count'):
                return [(w, ('sym', 'chars(%s)' % session.atom_name(args[0])))]
            if base.self_adt(I.find_body(ci)) == 'editor::Editor' if I.find_body(ci) is not None else False:
                b = I.find_body(ci)
                if b.name == 'text':
                    return [(w, ('sym', 'text'))]
            return None
    I = Interp([lib], LenRule())
    ex = I.run(lens[0], [('ref', (-1, 0, ()))], None, {(-1, 0): I.make_adt('editor::Editor')})
    vals = {rv for w, rv in ex}
    good = vals == {('sym', 'chars(text)')}
    res.oblige("U|%s|len" % cfg, good, sample="Editor::len = %s" % sorted(map(str, vals)), violation=None if good else dict(
        rule='C05.units', key="C05|units|len", msg="Editor::len is not the character count of the current text (%s)" % sorted(map(str, vals))))

    class R:
        def __init__(self):
            self.n = 0

        def inline_ok(self, I, ci, body):
            return False

        def on_call(self, I, w, ci, args):
            b = I.find_body(ci)
            if b is not None and b.npath == len_np:
                return [(w.with_st(w.st + ('len()',)), ('sym', 'len'))]
            return None

        def on_symbranch(self, I, w, v, truth):
            def nm(x):
                return x[1] if x[0] == 'sym' else str(x)
            return w.with_st(w.st + ('IF(%s %s %s):%s' % (nm(v[2]), v[1], nm(v[3]), 'T' if truth else 'F'),))

    f = [x for x in base.editor_methods(lib) if x.name == 'move_right'][0]
    I = Interp([lib], R())
    ed = I.make_adt('editor::Editor', buffer=('sym', 'buffer0'), cursor=('sym', 'c'), valid=('sym', 'valid0'))
    for w, rv in I.run(f, [('ref', (-1, 0, ()))], (), {(-1, 0): ed}):
        lab = base.outcome_label(rv)
        # the guard in any of its equivalent spellings: c < len, !(c >= len), len > c, !(len <= c)
        truth = 'T' if lab == 'true' else 'F'
        flip = {'T': 'F', 'F': 'T'}[truth]
        wants = {('len()', 'IF(c Lt len):' + truth), ('len()', 'IF(c Ge len):' + flip),
                 ('len()', 'IF(len Gt c):' + truth), ('len()', 'IF(len Le c):' + flip)}
        good = w.st in wants
        res.oblige("U|%s|move_right|%s" % (cfg, lab), good, sample="move_right:%s guard %s" % (lab, w.st), violation=None if good else dict(
            rule='C05.units', key="C05|units|move_right|%s" % lab,
            msg="%s: the exit returning %s is guarded by %s, expected `cursor < len()` (character count) to be %s" % (
                f.npath, lab, list(w.st), lab)))
    # completion leaves the cursor at len()
    fs = [x for x in base.editor_methods(lib) if x.name == 'autocompletion']
    if fs:
        f = fs[0]
        I = Interp([lib], R())
        ed = I.make_adt('editor::Editor', buffer=('sym', 'buffer0'), cursor=('sym', 'c'), valid=('sym', 'valid0'))
        ci_ = I.field_index('editor::Editor', 'cursor')
        vi_ = I.field_index('editor::Editor', 'valid')
        n = 0
        for w, rv in I.run(f, [('ref', (-1, 0, ())), TOP], (), {(-1, 0): ed}):
            e = w.store[(-1, 0)]
            cur = e[3][ci_]
            changed = e[3][vi_] != ('sym', 'valid0')
            good = cur == ('sym', 'len') if changed else cur in (('sym', 'c'), ('sym', 'len'))
            n += 1
            res.oblige("U|%s|autocompletion|%s|%s" % (cfg, 'completed' if changed else 'unchanged', cur[:2]), good,
                       violation=None if good else dict(
                           rule='C05.units', key="C05|units|autocompletion",
                           msg="%s: after a completion the cursor is %s, expected the character count `len()` of the new line" % (f.npath, cur)))
        if n < 2:
            raise KeyError("Editor::autocompletion: fewer than 2 abstract exits")


def check_moves(res, cfg, lib):
    class NoInline:
        def on_call(self, I, w, ci, args):
            return None

        def inline_ok(self, I, ci, body):
            return False

    for name, delta in (('move_left', -1), ('move_right', +1)):
        fs = [f for f in base.editor_methods(lib) if f.name == name]
        if len(fs) != 1:
            raise KeyError("Editor::%s not found" % name)
        f = fs[0]
        I = Interp([lib], NoInline())
        ed = I.make_adt('editor::Editor', buffer=('sym', 'buffer0'), cursor=('sym', 'c'), valid=('sym', 'valid0'))
        ci = I.field_index('editor::Editor', 'cursor')
        exits = I.run(f, [('ref', (-1, 0, ()))], None, {(-1, 0): ed})
        for w, rv in exits:
            e = w.store[(-1, 0)]
            lab = base.outcome_label(rv)
            if lab == 'true':
                want = ('symoff', 'c', delta)
                good = e[3][ci] == want and all(e[3][i] == ed[3][i] for i in range(len(ed[3])) if i != ci)
                msg = "on its `true` exit the cursor is %s instead of cursor%+d (or another field changed)" % (e[3][ci], delta)
            else:
                good = e == ed
                msg = "its `false` exit changes the editor"
            res.oblige("M|%s|%s|%s" % (cfg, name, lab), good, sample="M %s:%s cursor=%s" % (name, lab, e[3][ci]),
                       violation=None if good else dict(rule='C05.move', key="C05|move|%s|%s" % (name, lab),
                                                        msg="%s: %s" % (f.npath, msg)))
        # move_left moves iff cursor > 0: re-run with cursor = {0} and cursor >= 1
        if name == 'move_left':
            for cv, expect in ((const_int(0), 'false'), (('int', frozenset(), 1), 'true')):
                I = Interp([lib], NoInline())
                ed2 = I.make_adt('editor::Editor', buffer=('sym', 'buffer0'), cursor=cv, valid=('sym', 'valid0'))
                ex = I.run(f, [('ref', (-1, 0, ()))], None, {(-1, 0): ed2})
                labs = {base.outcome_label(rv) for w, rv in ex}
                good = labs == {expect}
                res.oblige("M|%s|move_left|guard|%s" % (cfg, expect), good,
                           violation=None if good else dict(rule='C05.move', key="C05|move|move_left|guard|%s" % expect,
                                                            msg="%s: with cursor %s it returns %s, expected %s" % (
                                                                f.npath, 'zero' if expect == 'false' else 'positive', sorted(labs), expect)))
