"""C06 — what the terminal shows is the prompt plus the edited line, cursor included.

Decided: the event words of `Cli::process_byte` (per key), `Cli::write` and `Cli::set_prompt` — obtained by abstract
interpretation of the MIR for every path and outcome, with the guards on symbolic editor quantities
(`cursor < len`, `cursor after > cursor before`) kept as labels — are composed with (i) the documented effect of every
`Editor` operation and (ii) the ECMA-48 effect of every byte sequence written (`codes::*` are read from the facts and
compared with ECMA-48: CUF = CSI C, CUB = CSI D, EL 2 = CSI 2 K, ICH = CSI @, DCH = CSI P), on *every* synchronised
start state with up to 3 (thorough tier: 4) characters on each side of the cursor (letters and blanks), two (three) prompts, every typed /
recalled / completed text of the model. Every successful word must end synchronised: visible line = prompt + line
up to trailing blanks, terminal cursor at the editor's cursor. The effects are uniform in the lengths involved, so
the bound is an enumeration of shapes, not a sample of sessions.
Assumed (decided elsewhere): the key->operation table (C05), `is_dirty` = "output non-empty and not ending in a line
break" (C13, not decided as a value), display width 1, no terminal wrapping.
"""
import itertools
from .. import facts as F
from .common import lib_crate
from . import session
from . import C14 as base

LEVEL = "other"
IMPORTS = [
    ("C13", ("C13.dirty", "C13.framing", "C13.sanitise"),
     "C06 assumes `is_dirty() == false` implies column 0 before the prompt and line are redrawn after application output"),
    ("C05", None, "the effect model's editor operations (cursor by one character, bounded by the character count) are the real editor's"),
]

ECMA48 = {'CURSOR_FORWARD': b'\x1b[C', 'CURSOR_BACKWARD': b'\x1b[D', 'CLEAR_LINE': b'\x1b[2K',
          'INSERT_CHAR': b'\x1b[@', 'DELETE_CHAR': b'\x1b[P'}
CRLF = b'\r\n'


class Infeasible(Exception):
    pass


class Model:
    def __init__(self, prompt, a, b, shown_prompt=None):
        """prompt: the prompt in force when the word ends; shown_prompt: the one on the terminal when it starts
        (they differ only for `Cli::set_prompt`)"""
        shown = prompt if shown_prompt is None else shown_prompt
        self.P = list(prompt)
        self.text = list(a + b)
        self.cur = len(a)
        self.line = list(shown) + list(a + b)
        self.col = len(shown) + len(a)
        self.unknown = False
        self.vals = {}

    # terminal
    def put(self, s):
        if self.unknown:
            return
        for ch in s:
            while len(self.line) < self.col:
                self.line.append(' ')
            if self.col < len(self.line):
                self.line[self.col] = ch
            else:
                self.line.append(ch)
            self.col += 1

    def esc(self, seq):
        if seq == '\r':
            self.col = 0
            return
        if seq == '\x1b[2K':
            self.line = []
            self.unknown = False if self.col == 0 else self.unknown
            return
        if self.unknown:
            return
        if seq == '\x1b[@':
            while len(self.line) < self.col:
                self.line.append(' ')
            self.line.insert(self.col, ' ')
        elif seq == '\x1b[P':
            if self.col < len(self.line):
                del self.line[self.col]
        elif seq == '\x1b[D':
            self.col = max(0, self.col - 1)
        elif seq == '\x1b[C':
            self.col += 1
        elif seq == '\x08':
            self.col = max(0, self.col - 1)
        elif len(seq) == 1 and ord(seq) < 0x20:
            pass                    # BEL and the other C0 controls have no effect on what the line shows
        else:
            self.put(seq)

    def synced(self):
        if self.unknown:
            return False, "terminal state unknown (user output not followed by a fresh line)"
        vis = "".join(self.line).rstrip(' ')
        want = ("".join(self.P) + "".join(self.text)).rstrip(' ')
        if vis != want:
            return False, "terminal shows %r, prompt+line is %r" % (vis, want)
        if self.col != len(self.P) + self.cur:
            return False, "terminal cursor at column %d, editor cursor at column %d" % (self.col, len(self.P) + self.cur)
        return True, ''


def completions(m):
    """Outcomes of Editor::autocompletion per its effect specification (C11/C03): unchanged, or the request
    (text without the blanks right of the cursor when the cursor is inside) extended by S and maybe a blank."""
    yield None
    text = "".join(m.text)
    # only the blanks to the right of the cursor are set aside (and only when the cursor is inside the text)
    stripped = (text[:m.cur] + text[m.cur:].rstrip(' ')) if m.cur < len(text) else text
    req = stripped.lstrip(' ')
    if not req or ' ' in req:
        return
    for s in ('', 'x', 'xy'):
        for sp in ('', ' '):
            yield stripped + s + sp


def run_word(word, status, prompt, a, b, choices):
    """-> list of (ok, why) for each nondeterministic resolution; raises Infeasible when guards contradict the state"""
    m = Model(prompt, a, b, choices.get('shown_prompt'))
    # expand counted loops: REPEAT(x..y){ body } -> body repeated (y - x) times, evaluated when reached
    # a symbolic editor quantity is named after the position of its event in the word (`cursor#4` = the value `E.cursor`
    # returned as 5th event); loop expansion below must not disturb that numbering
    origin = list(range(len(word)))
    seq = list(word)
    i = -1
    while True:
        i += 1
        if i >= len(seq):
            break
        lab = seq[i]
        if lab.startswith('REPEAT('):
            x, y = lab[7:-2].split('..')
            if x not in m.vals or y not in m.vals:
                raise Infeasible("loop bound over unknown quantity")
            depth, j = 1, i + 1
            while j < len(seq) and depth:
                if seq[j].startswith('REPEAT('):
                    depth += 1
                elif seq[j] == '}':
                    depth -= 1
                j += 1
            body = seq[i + 1:j - 1]
            n = max(0, m.vals[y] - m.vals[x])
            seq[i:j] = body * n
            origin[i:j] = origin[i + 1:j - 1] * n
            i -= 1
            continue
        if lab == 'E.cursor':
            m.vals['cursor#%d' % origin[i]] = m.cur
        elif lab == 'E.len':
            m.vals['len#%d' % origin[i]] = len(m.text)
        elif lab.startswith('IF(empty('):
            x = lab[len('IF(empty('):].split(')')[0]
            truth = lab.rsplit(':', 1)[1]
            if x == 'prompt':
                val_ = "".join(m.P)
            elif x == 'typed':
                val_ = 'T'
            elif x == 'recalled':
                val_ = choices.get('recalled', 'r')
            elif x in m.vals:
                val_ = m.vals[x]
            else:
                # a text the model cannot name (e.g. a trimmed copy of the line): either answer is possible for every
                # start shape; the path is evaluated under both rather than dropped
                val_ = None
            if val_ is not None and (val_ == '') != (truth == 'T'):
                raise Infeasible(lab)
        elif lab.startswith('IF('):
            body, truth = lab[3:].rsplit('):', 1)
            x, op, y = body.split(' ')
            def val(t):
                if t in m.vals:
                    return m.vals[t]
                try:
                    return int(t)
                except ValueError:
                    raise Infeasible("guard over unknown quantity " + t)
            vx, vy = val(x), val(y)
            r = {'Lt': vx < vy, 'Le': vx <= vy, 'Gt': vx > vy, 'Ge': vx >= vy, 'Eq': vx == vy, 'Ne': vx != vy}[op]
            if r != (truth == 'T'):
                raise Infeasible(lab)
        elif lab.startswith('E.insert('):
            what, out = lab[9:].rsplit('):', 1)
            if out == 'Some':
                s = {'typed': 'T', 'recalled': choices.get('recalled', 'r')}.get(what, '' if what.startswith('const') else '?')
                for ch in s:
                    m.text.insert(m.cur, ch)
                    m.cur += 1
                m.vals['inserted'] = s
        elif lab == 'E.move_left:true':
            if m.cur == 0:
                raise Infeasible(lab)
            m.cur -= 1
        elif lab == 'E.move_left:false':
            if m.cur != 0:
                raise Infeasible(lab)
        elif lab == 'E.move_right:true':
            if m.cur >= len(m.text):
                raise Infeasible(lab)
            m.cur += 1
        elif lab == 'E.move_right:false':
            if m.cur < len(m.text):
                raise Infeasible(lab)
        elif lab == 'E.remove':
            if m.cur < len(m.text):
                del m.text[m.cur]
        elif lab == 'E.clear':
            m.text, m.cur = [], 0
        elif lab == 'E.autocompletion':
            c = choices.get('completion')
            if c is not None:
                m.text = list(c)
                m.cur = len(m.text)
        elif lab == 'E.text':
            m.vals['line'] = "".join(m.text)
        elif lab.startswith('E.text_range('):
            k = lab[13:].split('..')[0]
            if k not in m.vals:
                raise Infeasible("range over unknown start")
            m.vals['line_range'] = "".join(m.text[m.vals[k]:])
        elif lab == 'W:CRLF':
            m.line, m.col, m.unknown = [], 0, False
        elif lab.startswith('W:const:'):
            s = lab[8:].encode().decode('unicode_escape')
            m.esc(s)
        elif lab in ('W:prompt',):
            m.put(m.P)
        elif lab == 'W:var':
            if i > 0 and seq[i - 1] == 'E.clear':
                m.put(m.P)           # the prompt after a handler changed it
            else:
                m.unknown = True     # variable text inside an error line; a CR LF follows
        elif lab in ('W:line', 'W:line_range', 'W:inserted'):
            m.put(m.vals.get(lab[2:], '?'))
        elif lab.startswith('DISPATCH') or lab.startswith('OUT.') or (lab.startswith('CB:') and 'autocomplete' not in lab):
            m.unknown = True
        elif lab == 'IS_DIRTY:false':
            m.line, m.col, m.unknown = [], 0, False
        # everything else (F, H.*, T.new, from_tokens, from_command, E.text_mut, IS_DIRTY:true ...) has no effect here
    return m.synced()


def check_codes(res, lib):
    for name, want in ECMA48.items():
        c = lib.consts.get('codes::' + name)
        got = bytes(c['val']['bytes']) if c and isinstance(c.get('val'), dict) and 'bytes' in c['val'] else None
        good = got == want
        res.oblige("codes|%s" % name, good, sample="codes::%s = %r" % (name, got), violation=None if good else dict(
            rule='C06.codes', key="C06|codes|%s" % name,
            msg="codes::%s is %r, ECMA-48 assigns %r to that function" % (name, got, want)))
    c = lib.consts.get('codes::CRLF')
    got = bytes(c['val']['bytes']) if c and isinstance(c.get('val'), dict) and 'bytes' in c['val'] else None
    res.oblige("codes|CRLF", got == CRLF, violation=None if got == CRLF else dict(
        rule='C06.codes', key="C06|codes|CRLF", msg="codes::CRLF is %r" % (got,)))


DEPTH = 3
PROMPTS = ('', '$ ')


def shapes():
    alpha = ['a', ' ']
    strs = ['']
    for n in range(1, DEPTH + 1):
        strs += ["".join(t) for t in itertools.product(alpha, repeat=n)]
    for prompt in PROMPTS:
        for a in strs:
            for b in strs:
                yield prompt, a, b


def check_words(res, cfg, who, words):
    fails = {}
    nfeasible = 0
    for word, status in sorted(words):
        if status != 'Ok':
            continue
        hit = False
        for prompt, a, b in shapes():
            ch_list = [{}]
            if any(l.startswith('E.insert(recalled)') for l in word):
                ch_list = [{'recalled': r} for r in ('', 'r', 'rs t')]
            if 'E.autocompletion' in word:
                ch_list = [{'completion': c} for c in completions(Model(prompt, a, b))]
            if who.endswith('::set_prompt'):
                # the prompt being replaced: shorter, equal, longer than the new one
                ch_list = [dict(c, shown_prompt=old) for c in ch_list for old in ('', '$ ', 'cfg> ')]
            for ch in ch_list:
                try:
                    ok, why = run_word(word, status, prompt, a, b, ch)
                except Infeasible:
                    continue
                hit = True
                nfeasible += 1
                res.obligations += 1
                res.evaluations += 1
                if ok:
                    res.discharged += 1
                else:
                    fails.setdefault(word, []).append((len(a) + len(b) + len(prompt), prompt, a, b, ch, why))
        res.distinct.add("%s|%s|%s" % (cfg, who, " ".join(word)))
        if not hit and word:
            res.extra.setdefault('words_without_feasible_instance', []).append("%s: %s" % (who, " ".join(word)))
            if not any(l.startswith(('IF(', 'E.move_', 'REPEAT(')) for l in word):
                # no guard could have made it infeasible: it was never evaluated, so nothing is decided about it
                res.add_violation(dict(rule='C06.sync', key="C06|sync|%s|unevaluated|%s" % (who, " ".join(word)[:120]),
                                       msg="%s [%s]: the path `%s` could not be evaluated on any start shape" % (who, cfg, " ".join(word))))
    if len(res.samples) < 10 and words:
        w0 = sorted(words)[0]
        res.samples.append("%s: %s" % (who, " ".join(w0[0])))
    for word, fl in fails.items():
        fl.sort(key=lambda x: (x[0], x[2], x[3]))
        n, prompt, a, b, ch, why = fl[0]
        res.add_violation(dict(
            rule='C06.sync', key="C06|sync|%s|%s" % (who, " ".join(l for l in word if l.startswith(('E.', 'W:', 'IF')))[:160]),
            msg="%s [%s]: starting from prompt %r, line %r with the cursor after %r%s, the path `%s` ends with %s (%d start states affected%s)"
                % (who, cfg, prompt, a + b, a, (" and %s" % ch) if ch else "", " ".join(word), why, len(fl),
                   "; the path is guarded by the emptiness of a text the model cannot name, so some of these start states may be excluded by it"
                   if any(l.startswith('IF(empty(') and l[9:].split(')')[0] not in ('prompt', 'typed', 'recalled', 'line', 'line_range', 'inserted')
                          for l in word) else ""),
            who=who, config=cfg, word=" ".join(word), start=dict(prompt=prompt, before=a, after=b, choice=ch), count=len(fl)))
    return nfeasible


def run(ctx, res):
    res.explanation = __doc__
    res.rule_text = ("one obligation per (config, key or API, successful event word, feasible start shape, model choice); "
                     "distinct = (config, key, word)")
    global DEPTH, PROMPTS
    # thorough tier, all features on: up to 4 characters on each side of the cursor and a third, longer prompt
    res.extra['shape_bound'] = {}
    for cfg in ctx.feature_configs():
        deep = ctx.tier == 'thorough' and cfg == 'default'
        DEPTH, PROMPTS = (4, ('', '$ ', 'cfg> ')) if deep else (3, ('', '$ '))
        res.extra['shape_bound'][cfg] = dict(chars_each_side=DEPTH, prompts=list(PROMPTS))
        lib = lib_crate(ctx.crates(cfg))
        check_codes(res, lib)
        ses, words, I = session.process_byte_words(lib)
        total = 0
        for key, ws in sorted(words.items()):
            total += check_words(res, cfg, 'key ' + key, ws)
        for api in ('cli::Cli::write', 'cli::Cli::set_prompt'):
            r2, ws = session.api_words(lib, api)
            total += check_words(res, cfg, api, ws)
        if total < 1000:
            raise KeyError("only %d feasible (word, shape) instances in %s" % (total, cfg))
    res.exhaustive = True
    res.assumptions = ["display width 1, no wrapping", "Editor operation effects as specified (C05 decides the key->operation table; "
                       "autocompletion effect: C11/C03)", "Writer::is_dirty() false => the terminal is at column 0 of a fresh line (C13 F; "
                       "its value is not decided)"]
