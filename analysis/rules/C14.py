"""C14 — a failing sink is reported and never corrupts the session.

Decided clauses (all over the interprocedural MIR, every path, every sink outcome):
 P  propagation: on every path on which a sink write/flush, the handler, a help/list callback or the
    closure given to `Cli::write` produced a sink error, the API entry returns `Err`, and when its error
    type can carry the sink's error, the returned value carries *that* error (followed as an atom through
    `?`, `From`, `map_err`, `or_else`, matches). Entries: every public method of `Cli` and `Writer`
    (the `core::fmt::Write` impl may only signal `fmt::Error`: the trait cannot carry E), and every
    derive-generated `Help::{list_commands,command_help}` / `CommandProcessor::process` in the corpus
    (integration tests, fixtures/decls, examples/desktop).
 a  restore: `Cli.editor` and `Cli.input_generator` are `Some` at every exit of every public method,
    whatever the outcome (given `Some` at entry): inductive invariant.
 b  reset after in-place rewrite: once an `Editor` method handing out `&mut str` was called, an `Editor`
    reset (a method whose every exit leaves cursor = valid = 0; discovered by effect analysis) has been
    called at *every* exit, Ok or Err.
 c  atomic edits: per key (every `ControlInput` variant, `Char`, none) the sequence of effective editor
    mutations on an Err exit is empty, equal to one of the Ok exits' sequences, or ends with a reset.
"""
from .. import facts as F
from ..absint import (Interp, TOP, U8_ANY, UNIT, OPTION, none, some, const_int)
from .common import (EventRule, cli_entry_store, ret_is_err, ret_is_ok, lib_crate, SINKERR, contains_value,
                     outcomes_for_type, strip_crate)

LEVEL = "other"


def self_adt(f):
    s = f.impl_self
    if s and s.get('k') == 'adt':
        return F.norm_path(s['path'])
    return None


def first_arg_ty(f):
    if f.body['arg_count'] < 1:
        return {}
    return f.body['locals'][1]['ty']


def ret_ty(f):
    return f.body['locals'][0]['ty']


def editor_methods(lib):
    """&mut self methods of the inherent impl of editor::Editor."""
    out = []
    for f in lib.lib_fns():
        if f.kind == 'AssocFn' and f.impl_trait is None and self_adt(f) == 'editor::Editor':
            t = first_arg_ty(f)
            if t.get('k') == 'ref' and t.get('mut'):
                out.append(f)
    return out


def editor_effects(lib):
    """Effect analysis of each `&mut self` Editor method (no rule: plain abstract interpretation).

    -> {npath: {'reset': bool, 'hands_out_mut_text': bool, 'noop_outcomes': set(labels)}}"""
    class NoInline:
        def on_call(self, I, w, ci, args):
            return None

        def inline_ok(self, I, ci, body):
            return False

    eff = {}
    for f in editor_methods(lib):
        I = Interp([lib], NoInline())
        ed = I.make_adt('editor::Editor', buffer=('sym', 'buffer0'), cursor=('sym', 'cursor0'), valid=('sym', 'valid0'))
        store = {(-1, 0): ed}
        args = [('ref', (-1, 0, ()))] + [TOP] * (f.body['arg_count'] - 1)
        try:
            exits = I.run(f, args, None, store)
        except Exception:
            exits = None
        ci = I.field_index('editor::Editor', 'cursor')
        vi = I.field_index('editor::Editor', 'valid')
        reset = bool(exits)
        noop = {}
        if exits:
            for w, rv in exits:
                e = w.store.get((-1, 0))
                if not (e and e[0] == 'adt' and e[3][ci] == const_int(0) and e[3][vi] == const_int(0)):
                    reset = False
                lab = outcome_label(rv)
                unchanged = (e == ed)
                noop[lab] = noop.get(lab, True) and unchanged
        rt = ret_ty(f)
        hands = rt.get('k') == 'ref' and rt.get('mut') and rt['to'].get('k') in ('str', 'slice')
        eff[f.npath] = dict(reset=reset, hands_out_mut_text=hands,
                            noop_outcomes={k for k, v in noop.items() if v}, name=f.name)
    return eff


def outcome_label(rv):
    if rv[0] == 'adt' and rv[1] == OPTION:
        return 'Some' if rv[2] == 1 else 'None'
    if rv[0] == 'int' and rv[2] is None and len(rv[1]) == 1:
        return 'true' if next(iter(rv[1])) == 1 else 'false'
    if rv[0] == 'adt':
        return 'v%d' % rv[2]
    return ''


class Rule(EventRule):
    def __init__(self, crates, lib, eff, writer_events=False):
        self.eff = eff
        self.writer_events = writer_events
        self.local_events = {np_: 'E.' + e['name'] for np_, e in eff.items()}
        if writer_events:
            # In generated code the public `Writer` methods are summarised by their declared outcome
            # (Ok | Err(sink error)); that summary is exactly clause P proved for them above.
            for kind, f in public_api(lib):
                if kind == 'writer':
                    self.local_events[f.npath] = 'W.' + f.name
        self.accept = find_accept(lib)
        self.local_events[self.accept.npath] = 'KEY'
        self.lib = lib
        super().__init__(crates)

    def classify(self, I, w, ci, args):
        ev = super().classify(I, w, ci, args)
        if ev is None and self.writer_events and ci.resolved:
            # compositional: a call resolved to another derive-generated Help/processor impl is summarised by its
            # declared outcomes; that impl is an entry of its own and clause P is checked for it there.
            body = I.find_body(ci)
            if body is not None and strip_crate(body.impl_trait) in ('service::Help', 'service::CommandProcessor') \
                    and body.expn and 'Derive' in body.expn:
                return 'CB:' + body.name
        return ev

    def outcomes(self, I, w, ci, args, ev):
        if ev == 'KEY':
            out = [('none', none())]
            inp = I.adts['input::Input']
            ctl = I.adts['input::ControlInput']
            for vi, v in enumerate(inp['variants']):
                if v['name'] == 'Control':
                    for ci_, c in enumerate(ctl['variants']):
                        out.append((c['name'], some(('adt', 'input::Input', vi, (('adt', 'input::ControlInput', ci_, ()),)))))
                else:
                    out.append((v['name'], some(('adt', 'input::Input', vi, (TOP,) * len(v['fields'])))))
            return out
        return super().outcomes(I, w, ci, args, ev)

    def step(self, I, w, ev, outcome, ci, args):
        key, failed, rewritten, edits = w.st
        if 'sink' in outcome:
            failed = True
        if ev == 'KEY':
            key = outcome
        elif ev.startswith('E.'):
            e = self.eff[ci.nresolved if ci.nresolved in self.eff else ci.npath]
            if e['hands_out_mut_text']:
                rewritten = True
            if e['reset']:
                rewritten = False
                edits = edits + ('reset',)
            elif outcome not in e['noop_outcomes']:
                lab = e['name'] + (':' + outcome if outcome else '')
                if len(edits) < 6:
                    edits = edits + (lab,)
        return [w.with_st((key, failed, rewritten, edits))]


def find_accept(lib):
    c = [f for f in lib.lib_fns() if f.kind == 'AssocFn' and self_adt(f) == 'input::InputGenerator'
         and f.impl_trait is None and f.vis in ('pub', 'crate')
         and ret_ty(f).get('k') == 'adt' and F.norm_path(ret_ty(f)['path']) == OPTION
         and 'input::Input' in ret_ty(f).get('s', '')]
    if len(c) != 1:
        raise KeyError("InputGenerator byte-accepting method: %d candidates" % len(c))
    return c[0]


def e_capable(f):
    s = ret_ty(f).get('s', '')
    return (', E>' in s) or ('ProcessError' in s) or ('HelpError' in s)


def entry_args(f, self_ref):
    args = []
    for i in range(1, f.body['arg_count'] + 1):
        ty = f.body['locals'][i]['ty']
        if self_ref is not None and ty.get('k') == 'ref' and ty['to'].get('k') == 'adt' \
                and F.norm_path(ty['to']['path']) == 'cli::Cli':
            args.append(self_ref)
        elif ty.get('k') == 'int' and ty['w'] == 8:
            args.append(U8_ANY)
        else:
            args.append(TOP)
    return args


def check_propagation(res, cfg, f, exits, kind):
    for w, rv in exits:
        key, failed, rewritten, edits = w.st
        if not failed:
            res.oblige("P|%s|%s|nofail|%s" % (cfg, f.npath, 'Err' if ret_is_err(rv) else 'Ok'), True)
            continue
        good = ret_is_err(rv)
        carries = contains_value(rv, SINKERR)
        if good and e_capable(f) and not carries:
            good = False
        k = "P|%s|%s|failed|%s" % (cfg, f.npath, 'carries' if carries else ('Err' if ret_is_err(rv) else 'Ok'))
        viol = None
        if not good:
            what = "returns Ok" if not ret_is_err(rv) else "returns an error that is not the sink's"
            viol = dict(rule='C14.swallowed', key="C14|swallowed|%s" % f.npath,
                        msg="%s: a path on which the sink (or user code writing to it) failed %s [%s, %s]"
                            % (f.npath, what, kind, cfg),
                        entry=f.npath, span=f.span, config=cfg)
        res.oblige(k, good, sample=k, violation=viol)


def public_api(lib):
    out = []
    for f in lib.lib_fns():
        if f.kind != 'AssocFn':
            continue
        sp = self_adt(f)
        if sp == 'cli::Cli' and f.impl_trait is None and f.vis in ('pub', 'crate'):
            out.append(('cli', f))
        elif sp == 'writer::Writer' and f.vis == 'pub' and ret_ty(f).get('k') == 'adt' \
                and F.norm_path(ret_ty(f)['path']) == 'core::result::Result':
            out.append(('writer', f))
    return out


def generated_entries(crate):
    out = []
    for f in crate.fns:
        if not f.expn or 'Derive' not in f.expn or ('Command' not in f.expn):
            continue
        if f.kind == 'Closure' and ret_ty(f).get('k') == 'adt' \
                and F.norm_path(ret_ty(f)['path']) == 'core::result::Result':
            out.append(f)
            continue
        if f.kind != 'AssocFn':
            continue
        tr = strip_crate(f.impl_trait)
        if tr in ('service::Help', 'service::CommandProcessor') and ret_ty(f).get('k') == 'adt' \
                and F.norm_path(ret_ty(f)['path']) == 'core::result::Result':
            out.append(f)
    return out


def run(ctx, res):
    res.explanation = __doc__
    res.rule_text = ("obligations: (P) one per (config, entry, exit class), (a) one per (config, method, exit), "
                     "(b) one per (config, exit of process_byte), (c) one per (config, key, Err edit word)")
    nsites = {}
    for cfg in ctx.feature_configs():
        lib = lib_crate(ctx.crates(cfg))
        eff = editor_effects(lib)
        resets = [n for n, e in eff.items() if e['reset']]
        handers = [n for n, e in eff.items() if e['hands_out_mut_text']]
        if not resets or not handers:
            raise KeyError("Editor reset / mutable-text methods not found (reset=%s, text=%s)" % (resets, handers))
        res.extra['editor_effects'] = {k: dict(reset=v['reset'], hands_out_mut_text=v['hands_out_mut_text'],
                                               noop_outcomes=sorted(v['noop_outcomes'])) for k, v in eff.items()}
        rule = Rule([lib], lib, eff)
        api = public_api(lib)
        if len([1 for k, f in api if k == 'cli']) < 4 or len([1 for k, f in api if k == 'writer']) < 4:
            raise KeyError("public API entry points not found")
        for kind, f in api:
            I = Interp([lib], rule)
            if kind == 'cli':
                store, self_ref = cli_entry_store(I)
            else:
                store, self_ref = {}, None
            exits = I.run(f, entry_args(f, self_ref), (None, False, False, ()), store)
            if not exits:
                raise KeyError("no exit reached for %s" % f.npath)
            check_propagation(res, cfg, f, exits, 'public API')
            if kind != 'cli' or first_arg_ty(f).get('k') != 'ref':
                continue
            ei = I.field_index('cli::Cli', 'editor')
            gi = I.field_index('cli::Cli', 'input_generator')
            ok_words = {}
            err_words = {}
            for w, rv in exits:
                key, failed, rewritten, edits = w.st
                cli = w.store.get((-1, 0))
                # (a)
                for fname, idx in (('editor', ei), ('input_generator', gi)):
                    v = cli[3][idx]
                    good = v[0] == 'adt' and v[1] == OPTION and v[2] == 1
                    k = "a|%s|%s|%s|%s" % (cfg, f.npath, fname, 'Err' if ret_is_err(rv) else 'Ok')
                    viol = None if good else dict(
                        rule='C14.restore', key="C14|restore|%s|%s" % (f.npath, fname),
                        msg="%s can return with Cli.%s not restored to Some (%s exit) [%s]"
                            % (f.npath, fname, 'Err' if ret_is_err(rv) else 'Ok', cfg), entry=f.npath, config=cfg)
                    res.oblige(k, good, violation=viol)
                # (b)
                k = "b|%s|%s|key=%s|%s" % (cfg, f.npath, key, 'Err' if ret_is_err(rv) else 'Ok')
                viol = None if not rewritten else dict(
                    rule='C14.reset', key="C14|reset|%s|%s" % (f.npath, 'Err' if ret_is_err(rv) else 'Ok'),
                    msg="%s: after key %s the edit buffer was handed out for in-place rewriting and an %s exit is reached "
                        "without an editor reset (edits on that path: %s) [%s]"
                        % (f.npath, key, 'Err' if ret_is_err(rv) else 'Ok', list(edits), cfg),
                    entry=f.npath, config=cfg, key_event=key)
                res.oblige(k, not rewritten, sample=k + " edits=%s" % (list(edits),), violation=viol)
                (err_words if ret_is_err(rv) else ok_words).setdefault(key, set()).add(edits)
            # (c)
            for key, words in err_words.items():
                for wd in words:
                    good = (wd == ()) or (wd in ok_words.get(key, ())) or (wd and wd[-1] == 'reset')
                    k = "c|%s|%s|key=%s|%s" % (cfg, f.npath, key, ">".join(wd))
                    viol = None if good else dict(
                        rule='C14.atomic', key="C14|atomic|%s|%s|%s" % (f.npath, key, ">".join(wd)),
                        msg="%s: on key %s a sink failure can leave the editor after the partial edit sequence %s "
                            "(complete sequences: %s) [%s]" % (f.npath, key, list(wd),
                                                             sorted(map(list, ok_words.get(key, ()))), cfg),
                        entry=f.npath, config=cfg)
                    res.oblige(k, good, sample=k, violation=viol)
        for ev, ss in rule.sites.items():
            nsites.setdefault(ev, set()).update(ss)
        res.merge_rule(rule)

    # generated code: corpus crates analysed against the default-feature library
    lib = lib_crate(ctx.crates('default'))
    corp = [('default', 'cli-test'), ('decls', 'decls')]
    if ctx.tier == 'thorough':
        corp.append(('desktop', 'desktop'))
    ngen = 0
    for cfg, cname in corp:
        crate = ctx.crates(cfg)[cname]
        eff = editor_effects(lib)
        rule = Rule([crate, lib], lib, eff, writer_events=True)
        for f in generated_entries(crate):
            I = Interp([crate, lib], rule, max_worlds=400000)
            exits = I.run(f, [TOP] * f.body['arg_count'], (None, False, False, ()), {})
            if not exits:
                raise KeyError("no exit reached for generated %s" % f.npath)
            check_propagation(res, cname, f, exits, 'derive-generated')
            ngen += 1
        res.merge_rule(rule)
    res.extra['generated_entries'] = ngen
    res.extra['event_sites'] = {k: len(v) for k, v in nsites.items()}
    if ngen < 20:
        raise KeyError("only %d derive-generated entries found in the corpus (expected >= 20)" % ngen)
    for ev, floor in (('SINK_WRITE', 10), ('SINK_FLUSH', 5), ('DISPATCH', 1), ('KEY', 1)):
        if len(nsites.get(ev, ())) < floor:
            raise KeyError("event %s matched %d sites (< %d)" % (ev, len(nsites.get(ev, ())), floor))
    res.exhaustive = True
    res.assumptions = ["unwind edges not followed; user code is modelled as returning any value of its declared type",
                       "a sink error is an opaque atom: the rule follows where the atom flows, not its content"]
