"""C13 — application output is framed on its own lines and never damages the input.

Decided clauses:
 S  LF sanitisation (taint with sanitiser, every path of every public `Writer` method that takes text):
    whatever is handed to the sink is (i) the part of the caller's text before the first LF found by a
    search whose predicate is proved to be `byte == 0x0A` over that same text, (ii) the text itself on the
    not-found edge of such a search, (iii) a constant without LF, or (iv) the constant CR LF, which must
    directly follow (i); the scan resumes exactly one byte after the LF found; at a successful return the
    whole text has been consumed (empty remainder or written on a not-found edge).
 F  framing: after user code that was handed a Writer/CliHandle (handler, help callbacks, the closure of
    `Cli::write`) every path consults `Writer::is_dirty`, writes CR LF on the `true` edge before any other
    sink write and before returning Ok, and does not write CR LF on the `false` edge.
 W  `Cli::write` performs no editor mutation.
 D  dirty tracking: the `Writer` state (dirty flag, last bytes) is extracted as a finite-state machine over text *shapes*
    (0 / 1 / 2 LFs followed by an LF-free tail that is empty, one char, or two-plus chars with the classes CR / other of its
    last two chars) and every sequence of `write_str` / `writeln_str` calls, empty writes included, is explored to closure:
    `is_dirty()` must equal "something was written and the output does not end with a line break".
"""
from .. import facts as F
from ..absint import (place_index, Interp, TOP, UNIT, TRUE, FALSE, U8_ANY, OPTION, none, some, const_int, mk_int, int_singleton, Inconclusive)
from .common import (EventRule, cli_entry_store, ret_is_err, ret_is_ok, lib_crate, SINKERR, outcomes_for_type,
                     strip_crate)
from . import C14 as base

LEVEL = "other"
IMPORTS = [
    ("C06", ("C06.sync",), "`leaves that line's content and cursor intact and redisplayed below the output` is the terminal/editor synchronisation of Cli::write",
     ("|cli::Cli::write|", "|cli::Cli::set_prompt|")),
]
LF = 10


def is_lf_pred(I, clos):
    """Is the closure `|&b| b == 0x0A`?  Decided by abstractly evaluating its body on {0x0A} and on the rest."""
    if clos[0] != 'closure':
        return False
    body = I.by_path.get(F.raw_key(clos[1]))
    if body is None:
        return False
    sub = Interp(I.crates, None)
    def run_on(vals):
        env = ('ref', ('const', clos))
        r = sub.run(body, [env, ('ref', ('const', vals))], None, {})
        outs = set()
        for w, rv in r:
            if rv[0] == 'pred':
                return {0, 1}
            if rv[0] != 'int' or rv[2] is not None:
                return {0, 1}
            outs |= set(rv[1])
        return outs
    try:
        return run_on(const_int(LF)) == {1} and run_on(mk_int(x for x in range(256) if x != LF)) == {0}
    except Exception:
        return False


def subst(v, old, new):
    if v == old:
        return new
    if v[0] == 'adt':
        return ('adt', v[1], v[2], tuple(subst(x, old, new) for x in v[3]))
    if v[0] == 'tuple':
        return ('tuple', tuple(subst(x, old, new) for x in v[1]))
    return v


NEXT_GEN = {'text': 'r1', 'r1': 'r2', 'r2': 'r1'}


class Sanitize(EventRule):
    """st = (pending, consumed): pending = what must be written next, consumed = caller text fully handled"""

    def __init__(self, crates):
        super().__init__(crates)
        self.bad = []

    def extra_interesting(self, fn):
        return False

    def inline_ok(self, I, ci, body):
        # besides functions that reach the sink: the writer's own event-free helpers (`fn line_end(text) -> Option<usize>`)
        # and small free helpers of its module - the LF search may live in one of them
        if EventRule.inline_ok(self, I, ci, body):
            return True
        from .common import pure_helper
        if base.self_adt(body) == 'writer::Writer' and body.kind == 'AssocFn' and len(body.blocks) <= 60:
            return not any(b['term']['k'] == 'call' and F.norm_path((b['term']['func'] or {}).get('path') or '') == body.npath
                           for b in body.blocks)
        return pure_helper(body, 'writer')

    def on_call(self, I, w, ci, args):
        p = ci.npath
        if ci.name in ('index', 'get_unchecked', 'get') and len(args) == 2 and args[0][0] == 'cstr' and LF not in args[0][1] \
                and not (args[1][0] == 'adt' and all(int_singleton(x) is not None for x in args[1][3] if x[0] == 'int') and
                         all(x[0] == 'int' for x in args[1][3])):
            # a piece of an LF-free constant (padding cut from a string of blanks): LF-free whatever its bounds
            return [(w, ('cstr', b'<part of %s>' % args[0][1][:8]))]
        if p == 'core::slice::<impl [T]>::iter' and args and args[0][0] in ('lf', 'cstr'):
            return [(w, ('adt', '$iter', 0, (args[0],)))]
        if p == 'core::iter::traits::iterator::Iterator::position' and args:
            it = args[0]
            if it[0] == 'ref':
                it = I.read(w, it[1])
            if it[0] == 'adt' and it[1] == '$iter' and it[3][0][0] == 'cstr' and is_lf_pred(I, args[1]):
                # constant text: the search result is known
                b = it[3][0][1]
                i = b.find(b'\n')
                return [(w, none() if i < 0 else some(const_int(i)))]
            if it[0] == 'adt' and it[1] == '$iter' and it[3][0][0] == 'lf':
                x = it[3][0]
                if not is_lf_pred(I, args[1]):
                    self.violation('C13.sanitise', "C13|sanitise|%s|pred" % ci.fn.npath,
                                   "%s: search over caller text at %s does not test `byte == LF`" % (ci.fn.npath, ci.span))
                    return None
                pending, done = w.st
                # not found: the text is LF-free from here on
                clean = ('lf', x[1], True)
                s2 = {k: subst(v, x, clean) for k, v in w.store.items()}
                from ..absint import World
                w_none = World(s2, ((('whole', x[1]),), done))
                w_some = w.with_st(((('pre', x[1]), ('crlf',)), done))
                return [(w_none, none()), (w_some, some(('sym', 'lfpos:' + x[1])))]
        if p == 'core::str::<impl str>::get_unchecked' and args and args[0][0] == 'cstr':
            b, rng = args[0][1], args[1]
            if rng[0] == 'adt' and int_singleton(rng[3][0]) is not None:
                n = int_singleton(rng[3][0])
                if rng[1].endswith('RangeTo') and n <= len(b):
                    return [(w, ('cstr', b[:n]))]
                if rng[1].endswith('RangeFrom') and n <= len(b):
                    return [(w, ('cstr', b[n:]))]
            return None
        if p in ('core::str::<impl str>::get_unchecked', 'core::str::<impl str>::get') and args and args[0][0] == 'lf':
            x, rng = args[0], args[1]
            if rng[0] == 'adt' and rng[1].endswith('RangeTo') and rng[3][0] == ('sym', 'lfpos:' + x[1]):
                return [(w, ('lf', x[1] + '.pre', True))]
            if rng[0] == 'adt' and rng[1].endswith('RangeFrom'):
                pending, done = w.st
                if rng[3][0] == ('symoff', 'lfpos:' + x[1], 1) and not pending:
                    return [(w, ('lf', NEXT_GEN.get(x[1], 'r1'), False))]
                self.violation('C13.sanitise', "C13|sanitise|%s|resume" % ci.fn.npath,
                               "%s: the scan for LF does not resume exactly one byte after the LF found (or resumes "
                               "before the line and its CR LF were written) at %s" % (ci.fn.npath, ci.span))
                return [(w, ('lf', 'r1', False))]
            return [(w, ('lf', 'unknown', False))]
        if p == 'core::str::<impl str>::is_empty' and args and args[0][0] == 'lf':
            pending, done = w.st
            # an empty text needs no write
            return [(w.with_st((tuple(x for x in pending if x != ('whole', args[0][1])), True)), TRUE), (w, FALSE)]
        if p == 'core::str::<impl str>::split_once' and len(args) == 2 and args[0][0] == 'lf':
            # `text.split_once('\n')`: None = no LF in the text; Some((line, tail)) = the LF-free part before the first LF and
            # everything after that LF (the scan resumes exactly one byte after it by construction)
            x = args[0]
            if int_singleton(args[1]) != LF:
                self.violation('C13.sanitise', "C13|sanitise|%s|pred" % ci.fn.npath,
                               "%s: the text is split at something other than LF at %s" % (ci.fn.npath, ci.span))
                return None
            pending, done = w.st
            if pending:
                self.violation('C13.sanitise', "C13|sanitise|%s|resume" % ci.fn.npath,
                               "%s: the scan for LF resumes before the line and its CR LF were written at %s" % (ci.fn.npath, ci.span))
            clean = ('lf', x[1], True)
            s2 = {k: subst(v, x, clean) for k, v in w.store.items()}
            from ..absint import World
            w_none = World(s2, ((('whole', x[1]),), done))
            w_some = w.with_st(((('pre', x[1]), ('crlf',)), done))
            return [(w_none, none()), (w_some, some(('tuple', (('lf', x[1] + '.pre', True), ('lf', NEXT_GEN.get(x[1], 'r1'), False)))))]
        if p in ('core::slice::<impl [T]>::split_last', 'core::slice::<impl [T]>::split_first') and args and args[0][0] == 'lf':
            x = args[0]
            pending, done = w.st
            w_empty = w.with_st((tuple(y for y in pending if y != ('whole', x[1])), True))
            return [(w_empty, none()), (w, some(('tuple', (('ref', ('const', mk_int(range(256)))), ('lf', x[1] + '.part', x[2])))))]
        return super().on_call(I, w, ci, args)

    def step(self, I, w, ev, outcome, ci, args):
        pending, done = w.st
        if ev == 'SINK_WRITE':
            a = args[1] if len(args) > 1 else TOP
            where = ci.where(I)
            if a[0] == 'cstr':
                if a[1] == b'\r\n':
                    if pending and pending[0] == ('crlf',):
                        pending = pending[1:]
                    elif pending:
                        self._bad(ci, where, "CR LF written while %s was due" % (pending[0],))
                elif LF in a[1]:
                    self._bad(ci, where, "a constant containing a bare LF is written to the sink")
                elif pending:
                    self._bad(ci, where, "constant written while %s was due" % (pending[0],))
            elif a[0] == 'lf':
                if not a[2]:
                    self._bad(ci, where, "caller text that may contain LF is forwarded to the sink unchanged")
                elif pending and pending[0] == ('pre', a[1][:-4]) and a[1].endswith('.pre'):
                    pending = pending[1:]
                elif pending and pending[0] == ('whole', a[1]):
                    pending = pending[1:]
                    done = True
                else:
                    self._bad(ci, where, "text %s written out of order (due: %s)" % (a[1], list(pending)))
            else:
                self._bad(ci, where, "unclassified bytes written to the sink")
        return [w.with_st((pending, done))]

    def _bad(self, ci, where, what):
        self.violation('C13.sanitise', "C13|sanitise|%s|%s" % (ci.fn.npath if False else where[0], what[:40]),
                       "%s at %s (%s)" % (what, where[1], where[0]), site=where[0], span=where[1])


class Framing(EventRule):
    """st = (frame, edits): frame in none | pending | need_crlf | no_crlf"""

    def __init__(self, crates, lib, eff):
        self.eff = eff
        self.local_events = {np_: 'E.' + e['name'] for np_, e in eff.items()}
        isd = [f for f in lib.lib_fns() if base.self_adt(f) == 'writer::Writer' and f.name == 'is_dirty']
        if len(isd) != 1:
            raise KeyError("Writer::is_dirty not found")
        self.local_events[isd[0].npath] = 'IS_DIRTY'
        # the library's own output through a Writer (e.g. `error: unknown command` in process_help) is output
        # to be framed like the user's: Writer methods are summarised as W.* events
        for kind, f in base.public_api(lib):
            if kind == 'writer':
                self.local_events[f.npath] = 'W.' + f.name
        super().__init__(crates)

    def step(self, I, w, ev, outcome, ci, args):
        frame, edits = w.st
        where = ci.where(I)
        if ev.startswith('W.'):
            if 'sink' not in outcome and frame in ('none', 'pending'):
                frame = 'pending'
            elif 'sink' not in outcome:
                self.violation('C13.framing', "C13|framing|%s|late-output" % where[0],
                               "output through a Writer at %s after the framing decision was taken (%s)" % (where[1], where[0]))
        elif ev == 'DISPATCH' or (ev.startswith('CB') and any(('Writer<' in t.get('s', '') or 'CliHandle<' in t.get('s', ''))
                                                              for t in ci.arg_tys)):
            if 'sink' not in outcome:
                frame = 'pending'
            else:
                frame = 'none'   # the error is returned (C14); framing is moot
        elif ev == 'IS_DIRTY':
            if frame == 'pending':
                frame = 'need_crlf' if outcome == 'true' else 'no_crlf'
        elif ev == 'SINK_WRITE':
            a = args[1] if len(args) > 1 else TOP
            is_crlf = a[0] == 'cstr' and a[1] == b'\r\n'
            if frame == 'pending':
                self.violation('C13.framing', "C13|framing|%s|unchecked" % where[0],
                               "sink write at %s after user output without consulting Writer::is_dirty (%s)" % (where[1], where[0]))
                frame = 'none'
            elif frame == 'need_crlf':
                if is_crlf:
                    frame = 'none'
                else:
                    self.violation('C13.framing', "C13|framing|%s|missing" % where[0],
                                   "user output did not end with a line break but %s writes something else than CR LF next (%s)"
                                   % (where[1], where[0]))
                    frame = 'none'
            elif frame == 'no_crlf':
                if is_crlf:
                    self.violation('C13.framing', "C13|framing|%s|extra" % where[0],
                                   "CR LF added at %s although the output was empty or already ended with a line break (%s)"
                                   % (where[1], where[0]))
                frame = 'none'
        elif ev.startswith('E.'):
            e = self.eff[ci.nresolved if ci.nresolved in self.eff else ci.npath]
            if not (outcome in e['noop_outcomes']):
                edits = True
        return [w.with_st((frame, edits))]


def run(ctx, res):
    res.explanation = __doc__
    res.rule_text = ("S: one obligation per (Writer method, abstract exit) plus one per sink-write site classified; "
                     "F/W: one per (config, Cli entry, abstract exit)")
    for cfg in ctx.feature_configs():
        lib = lib_crate(ctx.crates(cfg))
        # ---- S
        san = Sanitize([lib])
        n_text_methods = 0
        for kind, f in base.public_api(lib):
            if kind != 'writer':
                continue
            args = []
            names = []
            for i in range(1, f.body['arg_count'] + 1):
                ty = f.body['locals'][i]['ty']
                if ty.get('k') == 'ref' and ty['to'].get('k') == 'str':
                    nm = 'text' if not names else 'text%d' % len(names)
                    names.append(nm)
                    args.append(('lf', nm, False))
                else:
                    args.append(TOP)
            if not names:
                continue
            n_text_methods += 1
            I = Interp([lib], san)
            before = len(san.violations)
            exits = I.run(f, args, ((), False), {})
            if not exits:
                raise KeyError("no exit for %s" % f.npath)
            for w, rv in exits:
                pending, done = w.st
                okret = not ret_is_err(rv)
                good = True
                viol = None
                if okret and pending:
                    good = False
                    viol = dict(rule='C13.sanitise', key="C13|sanitise|%s|incomplete" % f.npath,
                                msg="%s can return Ok while %s is still due to be written" % (f.npath, list(pending)))
                k = "S|%s|%s|%s|pending=%d" % (cfg, f.npath, 'Ok' if okret else 'Err', len(pending))
                res.oblige(k, good, sample=k, violation=viol)
            res.oblige("S|%s|%s|sites" % (cfg, f.npath), len(san.violations) == before)
        if n_text_methods < 4:
            raise KeyError("only %d public Writer methods taking text found" % n_text_methods)
        res.merge_rule(san)
        res.extra.setdefault('sanitise_sites', sorted(san.sites.get('SINK_WRITE', ())))
        # ---- F, W
        eff = base.editor_effects(lib)
        fr = Framing([lib], lib, eff)
        for kind, f in base.public_api(lib):
            if kind != 'cli':
                continue
            I = Interp([lib], fr)
            store, self_ref = cli_entry_store(I)
            before = len(fr.violations)
            exits = I.run(f, base.entry_args(f, self_ref), ('none', False), store)
            for w, rv in exits:
                frame, edits = w.st
                okret = not ret_is_err(rv)
                good = not (okret and frame in ('pending', 'need_crlf'))
                viol = None if good else dict(
                    rule='C13.framing', key="C13|framing|%s|exit" % f.npath,
                    msg="%s can return Ok after user output without the framing line break decision (state %s)" % (f.npath, frame))
                k = "F|%s|%s|%s|%s" % (cfg, f.npath, 'Ok' if okret else 'Err', frame)
                res.oblige(k, good, sample=k, violation=viol)
                if f.name == 'write':
                    goodw = not edits
                    res.oblige("W|%s|%s|%s" % (cfg, f.npath, 'Ok' if okret else 'Err'), goodw, violation=None if goodw else dict(
                        rule='C13.write-mutates', key="C13|write-mutates|%s" % f.npath,
                        msg="%s mutates the editor while printing application output" % f.npath))
            res.oblige("F|%s|%s|sites" % (cfg, f.npath), len(fr.violations) == before)
        for ev, floor in (('IS_DIRTY', 2), ('DISPATCH', 1), ('CB:closure', 1)):
            if len(fr.sites.get(ev, ())) < floor:
                raise KeyError("framing: event %s matched %d sites (< %d)" % (ev, len(fr.sites.get(ev, ())), floor))
        res.merge_rule(fr)
        check_dirty(res, lib)
    res.exhaustive = True


# ---------------------------------------------------------------------------------------------
# D: dirty tracking as a finite-state machine over text shapes

CR, OTHER = 'CR', 'x'


def text_shapes():
    """abstract texts: number of LFs (0, 1, 2) followed by a tail without LF: empty | one char | two or more chars, with
    the classes (CR / other) of the last two characters"""
    tails = [('E',)] + [('N', '1', None, c) for c in (CR, OTHER)] + [('N', '2+', a, b) for a in (CR, OTHER) for b in (CR, OTHER)]
    out = []
    for n in (0, 1, 2):
        for t in tails:
            out.append(('tstr', n, t))
    return out


def shape_name(t):
    tail = t[2]
    s = "LF·" * 0 + ("…\\n" * t[1])
    if tail[0] == 'E':
        return (s or '""') if s else '""'
    if tail[1] == '1':
        return s + ("\\r" if tail[3] == CR else "a")
    return s + "…" + ("\\r" if tail[2] == CR else "a") + ("\\r" if tail[3] == CR else "b")


class DirtyRule:
    def inline_ok(self, I, ci, body):
        # Writer methods call each other (writeln_str -> write_str): follow them, and free helpers of the module
        from .common import pure_helper
        return base.self_adt(body) == 'writer::Writer' or pure_helper(body, 'writer')

    def _cls(self, c):
        return const_int(13) if c == CR else mk_int(x for x in range(256) if x not in (10, 13))

    def on_call(self, I, w, ci, args):
        p = ci.npath or ''
        a0 = args[0] if args else TOP
        if p.endswith('WriteExt::write_str') or p.endswith('WriteExt::write_bytes'):
            from ..absint import ok
            return [(w, ok(UNIT))]
        if a0[0] == 'thead' and p == 'core::slice::<impl [T]>::last':
            # the bytes before the last one of an LF-free remainder: its own last byte, if any
            return [(w, none() if a0[1] is None else some(('ref', ('const', self._cls(a0[1])))))]
        if a0[0] != 'tstr':
            if p == 'core::slice::<impl [T]>::iter' and a0[0] == 'tbytes':
                return [(w, a0)]
            if ci.name == 'position' and a0[0] == 'ref':
                v = I.read(w, a0[1])
                if v[0] == 'tstr':
                    if not is_lf_pred(I, args[1]):
                        return None
                    return [(w, some(('sym', 'lfpos')))] if v[1] > 0 else [(w, none())]
            return None
        t = a0
        if p == 'core::str::<impl str>::is_empty':
            return [(w, TRUE if (t[1] == 0 and t[2][0] == 'E') else FALSE)]
        if p in ('core::str::<impl str>::as_bytes',):
            return [(w, t)]
        if p == 'core::slice::<impl [T]>::iter':
            return [(w, t)]
        if p == 'core::str::<impl str>::len' or p == 'core::slice::<impl [T]>::len':
            if t[1] == 0:
                return [(w, ('sym', 'len'))]
            return [(w, TOP)]
        if p == 'core::str::<impl str>::split_once' and len(args) == 2:
            if int_singleton(args[1]) != 10:
                return None
            if t[1] > 0:
                return [(w, some(('tuple', (('sym', 'line'), ('tstr', t[1] - 1, t[2])))))]
            return [(w, none())]
        if p in ('core::slice::<impl [T]>::split_last',):
            tail = t[2]
            if t[1] > 0:
                return None          # text with line feeds left: not the LF-free remainder this idiom is for
            if tail[0] == 'E':
                return [(w, none())]
            last = ('ref', ('const', self._cls(tail[3])))
            head = ('thead', tail[2] if tail[1] == '2+' else None)
            return [(w, some(('tuple', (last, head))))]
        if p == 'core::str::<impl str>::get_unchecked':
            r = args[1]
            if r[0] == 'adt' and r[1].endswith('RangeTo') and r[3][0] == ('sym', 'lfpos'):
                return [(w, ('sym', 'line'))]
            if r[0] == 'adt' and r[1].endswith('RangeFrom') and r[3][0] == ('symoff', 'lfpos', 1) and t[1] > 0:
                return [(w, ('tstr', t[1] - 1, t[2]))]
            return [(w, TOP)]
        return None

    def on_symbranch(self, I, w, v, truth):
        # comparisons of the symbolic length of an LF-free text with constants
        if v[2] == ('sym', 'len') and v[3][0] == 'int':
            c = int_singleton(v[3])
            t = w.st
            if t is None or c is None:
                return w
            tail = t[2]
            n = 0 if tail[0] == 'E' else (1 if tail[1] == '1' else 2)
            # n = 2 stands for ">= 2"
            op = v[1]
            def holds(x):
                return {'Gt': x > c, 'Ge': x >= c, 'Lt': x < c, 'Le': x <= c, 'Eq': x == c, 'Ne': x != c}[op]
            cands = [n] if n < 2 else [2, 3, 7]
            res_ = {holds(x) for x in cands}
            if res_ == {truth}:
                return w
            if truth in res_:
                return w
            return None
        return w

    def on_load(self, I, w, depth, place):
        v = w.store.get((depth, place['l']), TOP)
        if v[0] != 'tstr':
            return None
        iv = place_index(w, depth, place)
        if iv is None:
            return None
        if iv[0] == 'fromend':
            iv = ('symoff', 'len', -iv[1])
        tail = v[2]
        if iv == ('symoff', 'len', -1) and tail[0] == 'N':
            return [(w, self._cls(tail[3]))]
        if iv == ('symoff', 'len', -2) and tail[0] == 'N' and tail[1] == '2+':
            return [(w, self._cls(tail[2]))]
        return [(w, mk_int(range(256)))]


def check_dirty(res, lib):
    """is_dirty() == "something was written and the output does not end with a line break", for every sequence of
    write_str / writeln_str calls with texts of every shape (empty writes included)."""
    wr = {f.name: f for k, f in base.public_api(lib) if k == 'writer' and f.impl_trait is None}
    isd = [f for f in lib.lib_fns() if base.self_adt(f) == 'writer::Writer' and f.name == 'is_dirty'][0]
    new = [f for f in lib.lib_fns() if base.self_adt(f) == 'writer::Writer' and f.name == 'new'][0]
    rule = DirtyRule()
    I0 = Interp([lib], rule)
    ex = I0.run(new, [TOP], None, {})
    if len(ex) != 1:
        raise Inconclusive("Writer::new has %d abstract results" % len(ex))
    init = ex[0][1]

    def is_dirty(state):
        I = Interp([lib], rule)
        outs = set()
        for w, rv in I.run(isd, [('ref', (-1, 0, ()))], None, {(-1, 0): state}):
            outs |= set(rv[1]) if rv[0] == 'int' and rv[2] is None else {0, 1}
        return outs

    ops = [('write_str', s) for s in text_shapes()] + [('writeln_str', s) for s in text_shapes()]
    # the trait front ends of the same writer (`core::fmt::Write`, ufmt): `write_str` must behave like the inherent one,
    # `write_char(c)` like writing the one-character text c
    CHARS = [('chr', 'LF', const_int(10)), ('chr', 'CR', const_int(13)), ('chr', 'x', mk_int(x for x in range(0x20, 0x7F)))]
    for k, f in base.public_api(lib):
        if k != 'writer' or f.impl_trait is None or f.body['arg_count'] != 2:
            continue
        pty = f.body['locals'][2]['ty']
        if f.name == 'write_str' and pty.get('k') == 'ref' and pty['to'].get('k') == 'str':
            wr[f.npath] = f
            ops += [(f.npath, s) for s in text_shapes()]
        elif f.name == 'write_char' and pty.get('k') == 'char':
            wr[f.npath] = f
            ops += [(f.npath, c) for c in CHARS]
    start = (init, False)
    seen = {start: ()}
    work = [start]
    bad = []
    while work:
        nxt = []
        for pair in work:
            state, ref_dirty = pair
            word = seen[pair]
            got = is_dirty(state)
            good = got == {1 if ref_dirty else 0}
            res.oblige("D|%s" % (word,), good)
            if not good:
                bad.append((word, got, ref_dirty))
                continue
            for opn, shape in ops:
                f = wr.get(opn)
                if f is None:
                    raise KeyError("Writer::%s not found" % opn)
                I = Interp([lib], rule)
                if shape[0] == 'chr':
                    exits = I.run(f, [('ref', (-1, 0, ())), shape[2]], None, {(-1, 0): state})
                    nref = shape[1] != 'LF'
                else:
                    exits = I.run(f, [('ref', (-1, 0, ())), shape], shape, {(-1, 0): state})
                    if opn == 'writeln_str':
                        nref = False
                    elif shape[1] == 0 and shape[2][0] == 'E':
                        nref = ref_dirty
                    else:
                        nref = shape[2][0] != 'E'
                for w, rv in exits:
                    if ret_is_err(rv):
                        continue          # the sink failed: the call reports it (C14); the flag is moot
                    ns = w.store[(-1, 0)]
                    np_ = (ns, nref)
                    if np_ not in seen:
                        seen[np_] = word + ("%s(%s)" % (opn.split('::')[-1] if '::' in opn else opn,
                                                          shape_name(shape) if shape[0] != 'chr' else {'LF': "'\\n'", 'CR': "'\\r'", 'x': "'a'"}[shape[1]]),)
                        nxt.append(np_)
                        if len(seen) > 3000:
                            raise Inconclusive("Writer state space exceeds 3000")
        work = nxt
    res.extra['writer_states'] = len(seen)
    if len(seen) < 3:
        raise KeyError("Writer state machine has only %d states" % len(seen))
    if bad:
        bad.sort(key=lambda x: len(x[0]))
        word, got, ref_dirty = bad[0]
        res.add_violation(dict(
            rule='C13.dirty', key="C13|dirty|writer::Writer::is_dirty",
            msg="after %s, Writer::is_dirty() is %s but the output %s (%d call sequences affected): the line break before the next "
                "prompt would be %s" % (" ; ".join(word) or 'nothing', sorted(got),
                                        "is non-empty and does not end with a line break" if ref_dirty else "is empty or ends with a line break",
                                        len(bad), "missing" if ref_dirty else "duplicated")))
