"""C16 — disabling a feature removes that facility only.

Decided clauses (all 8 combinations of {history, autocomplete, help}, macros on):
 B  every combination type-checks (library, unit-test and integration-test targets) — rustc, via the fact extraction.
 M  manifest rule: in embedded-cli/Cargo.toml `autocomplete` and `help` forward exactly the same-named feature of the
    macros crate, `history` forwards nothing, `macros` enables the macros crate, `default` has all four.
 X  cross-configuration MIR differencing: with Owned(f) / Changed(f) defined as the functions that disappear / whose
    normalised MIR changes when *only* f is disabled, every combination K with disabled set D has exactly the functions
    Full − ∪Owned(f∈D) and its changed functions are exactly ∪Changed(f∈D) (features do not interact); the items a
    facility owns are anchored (history::History::*, Cli::navigate_history; Cli::process_autocomplete,
    Editor::autocompletion; Cli::process_help, HelpRequest::from_command).
 G  generated code: the derive output for the declaration corpus is identical across feature sets except for the impls of
    the disabled facility itself (parsers and processors never depend on a feature).
 W  behaviour: the event words of `Cli::process_byte` (every path and outcome, rules/session.py) of each combination are
    *identical* to the full configuration's for every key the disabled facilities do not own; with history off Up and
    Down have the empty word and Enter's words equal the full ones with the history push erased; with autocomplete off
    Tab has the empty word; with help off every Enter word with a command dispatches it and equals a full-configuration
    non-help word with the help decision erased. `Cli::write` / `Cli::set_prompt` words are identical in all 8.
 Imported: C09.parse (see IMPORTS).
"""
import hashlib
import json
import os
from concurrent.futures import ThreadPoolExecutor
try:
    import tomllib
except ImportError:   # pragma: no cover
    tomllib = None
from .. import facts as F
from .common import lib_crate
from . import session

LEVEL = "other"
IMPORTS = [
    ("C09", ("C09.parse",), "with help off a line carrying `-h` / `--help` is delivered to the handler like any other command: G shows the "
                            "generated parser is the same in every feature set, so it has to treat an option the user named `h` like any "
                            "other declared option (corpus module d13) - a parser that leaves such options to the library's help "
                            "interception is only right while the help feature is on",
     ("|d13_help_like_names::Cmd|",)),
]
FULL = F.config_name(F.FEATURES)


def strip_spans(x):
    if isinstance(x, dict):
        return {k: strip_spans(v) for k, v in x.items() if k not in ('span', 'fn_span', 'expn', 'unsafe_block')}
    if isinstance(x, list):
        return [strip_spans(v) for v in x]
    return x


def name_fields(x, body, fieldnames):
    """Field projections on a `Cli` value are identified by field *name*: the struct's layout depends on the
    `history` feature (the field index of everything after `history` shifts), which is not a behavioural change."""
    if isinstance(x, dict):
        if 'l' in x and 'p' in x and isinstance(x['p'], list) and x['p']:
            lty = body['locals'][x['l']]['ty'] if x['l'] < len(body['locals']) else {}
            t = lty
            while t.get('k') == 'ref':
                t = t['to']
            if t.get('k') == 'adt' and F.norm_path(t['path']) == 'cli::Cli':
                p2 = []
                seen_field = False
                for e in x['p']:
                    if e.get('k') == 'field' and not seen_field:
                        seen_field = True
                        e = dict(e)
                        e['i'] = fieldnames.get(e['i'], e['i'])
                    p2.append(e)
                x = dict(x)
                x['p'] = p2
        return {k: name_fields(v, body, fieldnames) for k, v in x.items()}
    if isinstance(x, list):
        return [name_fields(v, body, fieldnames) for v in x]
    return x


def fn_hashes(lib):
    out = {}
    cli = lib.adts_n.get('cli::Cli')
    fieldnames = {i: f['name'] for i, f in enumerate(cli['variants'][0]['fields'])} if cli else {}
    for f in lib.lib_fns():
        body = name_fields(strip_spans(f.body), f.body, fieldnames)
        # local declarations of type Cli differ textually only through the PhantomData field: types are kept as is
        h = hashlib.sha1(json.dumps([body, strip_spans(f.promoted)], sort_keys=True).encode()).hexdigest()[:16]
        out[f.npath] = h
    return out


def erase(word, preds):
    return tuple(l for l in word if not any(p(l) for p in preds))


def check_manifest(res):
    p = os.path.join(F.REPO, 'embedded-cli', 'Cargo.toml')
    with open(p, 'rb') as f:
        t = tomllib.load(f)
    feats = t.get('features', {})
    want = {
        'autocomplete': ['embedded-cli-macros/autocomplete'],
        'help': ['embedded-cli-macros/help'],
        'history': [],
        'macros': ['embedded-cli-macros'],
    }
    for k, v in want.items():
        got = sorted(feats.get(k, ['<missing>']))
        good = got == sorted(v)
        res.oblige("M|%s" % k, good, sample="feature %s = %s" % (k, got), violation=None if good else dict(
            rule='C16.manifest', key="C16|manifest|%s" % k,
            msg="embedded-cli/Cargo.toml: feature `%s` forwards %s, expected %s" % (k, got, sorted(v))))
    got = sorted(feats.get('default', []))
    good = got == ['autocomplete', 'help', 'history', 'macros']
    res.oblige("M|default", good, violation=None if good else dict(
        rule='C16.manifest', key="C16|manifest|default", msg="default features are %s" % got))
    pm = os.path.join(F.REPO, 'embedded-cli-macros', 'Cargo.toml')
    with open(pm, 'rb') as f:
        tm = tomllib.load(f)
    fm = tm.get('features', {})
    for k in ('autocomplete', 'help'):
        good = fm.get(k) == []
        res.oblige("M|macros.%s" % k, good, violation=None if good else dict(
            rule='C16.manifest', key="C16|manifest|macros.%s" % k,
            msg="embedded-cli-macros/Cargo.toml: feature `%s` is %s, expected an independent empty feature" % (k, fm.get(k))))


def check_generated_independence(ctx, res, cfgs):
    """G: derive-generated code of the declaration corpus (fixtures/decls), per feature set: the generated `FromRaw::parse`,
    processors and their closures are identical in all 8 combinations (no facility owns them); generated `Help` impls are
    identical in the 4 combinations with `help`, generated `Autocomplete` impls in the 4 with `autocomplete`."""
    names = list(cfgs)

    def ext(n):
        try:
            F.extract('decls-' + n, ctx.key)
            return n, None
        except F.ExtractError as e:
            return n, str(e)
    with ThreadPoolExecutor(max_workers=8) as ex:
        results = list(ex.map(ext, names))
    for n, err in results:
        res.oblige("G|build|%s" % n, err is None, violation=None if err is None else dict(
            rule='C16.build', key="C16|build|decls-%s" % n, msg="the declaration corpus does not type-check with features {%s}: %s" % (
                ",".join(cfgs[n]), (err or '')[-600:])))
    if any(e for _, e in results):
        return
    from .common import strip_crate
    tables = {}
    for n in names:
        crate = ctx.crates('decls-' + n)['decls']
        t = {}
        for f in crate.fns:
            if not (f.expn and 'Derive' in f.expn and ('Command' in f.expn)):
                continue
            grp = 'core'
            tr = strip_crate(f.impl_trait) or ''
            pth = f.npath
            if tr == 'service::Help' or '<impl service::Help' in pth:
                grp = 'help'
            elif tr == 'service::Autocomplete' or '<impl service::Autocomplete' in pth:
                grp = 'autocomplete'
            h = hashlib.sha1(json.dumps(strip_spans([f.body, f.promoted]), sort_keys=True).encode()).hexdigest()[:16]
            t[f.npath] = (grp, h)
        tables[n] = t
    ref = tables[FULL]
    ncmp = 0
    for n in names:
        for np_, (grp, h) in ref.items():
            if grp == 'help' and 'help' not in cfgs[n]:
                continue
            if grp == 'autocomplete' and 'autocomplete' not in cfgs[n]:
                continue
            got = tables[n].get(np_)
            good = got is not None and got[1] == h
            ncmp += 1
            if not good:
                res.oblige("G|%s|%s" % (n, np_), False, violation=dict(
                    rule='C16.generated', key="C16|generated|%s" % np_,
                    msg="derive-generated %s %s in configuration %s (features {%s}) than with all features: code generated for a "
                        "facility that is still enabled depends on a disabled one" % (
                            np_, 'is missing' if got is None else 'differs', n, ",".join(cfgs[n]))))
            else:
                res.obligations += 1
                res.evaluations += 1
                res.discharged += 1
    res.distinct.add("G|generated-independence")
    res.extra['generated_functions_compared'] = ncmp
    if ncmp < 200:
        raise KeyError("only %d generated functions compared across configurations" % ncmp)


def run(ctx, res):
    res.explanation = __doc__
    res.rule_text = ("B: one per configuration; M: one per manifest feature; X: one per (configuration, set equation); "
                     "W: one per (configuration, key, event word)")
    check_manifest(res)
    cfgs = F.feature_configs()
    names = list(cfgs)

    # B: extraction == `cargo check --all-targets` with that feature set (in parallel)
    def ext(name):
        try:
            F.extract(name, ctx.key)
            return name, None
        except F.ExtractError as e:
            return name, str(e)
    with ThreadPoolExecutor(max_workers=8) as ex:
        results = list(ex.map(ext, names))
    for name, err in results:
        res.oblige("B|%s" % name, err is None, sample="config %s (%s) type-checks" % (name, ",".join(cfgs[name]) or 'none'),
                   violation=None if err is None else dict(
                       rule='C16.build', key="C16|build|%s" % name,
                       msg="feature combination {%s} does not type-check: %s" % (",".join(cfgs[name]), err[-800:])))
    if any(err for _, err in results):
        return
    libs = {n: lib_crate(ctx.crates(n)) for n in names}
    hashes = {n: fn_hashes(libs[n]) for n in names}
    full = hashes[FULL]
    single = {}
    for f in F.FEATURES:
        n = F.config_name([x for x in F.FEATURES if x != f])
        owned = set(full) - set(hashes[n])
        added = set(hashes[n]) - set(full)
        changed = {k for k in set(full) & set(hashes[n]) if full[k] != hashes[n][k]}
        single[f] = (owned, changed, added)
    res.extra['owned'] = {f: sorted(single[f][0]) for f in single}
    res.extra['changed'] = {f: sorted(single[f][1]) for f in single}
    # module-level items a facility owns must disappear with it (Cli methods may stay as no-op twins)
    anchors = {
        'history': ['history::History::push', 'history::History::next_older', 'history::History::next_newer'],
        'autocomplete': ['editor::Editor::autocompletion'],
        'help': ['<command::RawCommand as service::Help>::command_help'],
    }

    def wiring(np_):
        """Functions whose code may depend on a feature: the methods (and closures) of `Cli` / `CliBuilder`, where the
        facilities are wired in - their behaviour under every feature set is what clause W compares, with all of them
        inlined into the event words of the public entry points - and `Debug` impls (no behaviour)."""
        return np_.startswith(('cli::Cli::', '<cli::Cli as ', 'builder::CliBuilder::', '<builder::CliBuilder as ')) \
            or np_.endswith(' as core::fmt::Debug>::fmt')
    for f in F.FEATURES:
        extra = {x for x in (single[f][1] | single[f][2]) if not wiring(x)}
        good = not extra
        res.oblige("X|allowed-changed|%s" % f, good, violation=None if good else dict(
            rule='C16.unexpected-dependence', key="C16|unexpected-dependence|%s|%s" % (f, ",".join(sorted(extra))[:80]),
            msg="disabling only `%s` changes the code of %s: code outside the Cli wiring (whose behaviour clause W compares) "
                "depends on the feature" % (f, sorted(extra))))
    for f, own in anchors.items():
        good = all(a in single[f][0] for a in own)
        res.oblige("X|anchor|%s" % f, good, violation=None if good else dict(
            rule='C16.ownership', key="C16|ownership|%s" % f,
            msg="disabling only `%s` removes %s; expected it to remove at least %s (the facility's own code is still compiled in)" % (
                f, sorted(single[f][0])[:12], own)))
    for n in names:
        D = [f for f in F.FEATURES if f not in cfgs[n]]
        exp_removed = set().union(*[single[f][0] for f in D]) if D else set()
        exp_added = set().union(*[single[f][2] for f in D]) if D else set()
        exp_changed = set().union(*[single[f][1] for f in D]) if D else set()
        got_removed = set(full) - set(hashes[n])
        got_added = set(hashes[n]) - set(full)
        got_changed = {k for k in set(full) & set(hashes[n]) if full[k] != hashes[n][k]}
        for what, got, exp in (('removed', got_removed, exp_removed), ('added', got_added, exp_added),
                               ('changed', got_changed, exp_changed - got_removed)):
            good = got == exp
            res.oblige("X|%s|%s" % (n, what), good, sample="%s: %d functions %s" % (n, len(got), what),
                       violation=None if good else dict(
                           rule='C16.interaction', key="C16|interaction|%s|%s" % (n, what),
                           msg="configuration %s (disabled: %s): functions %s are %s beyond / short of what the single features account for: "
                               "unexpected %s, missing %s" % (n, D, what, what, sorted(got - exp)[:10], sorted(exp - got)[:10])))
    check_generated_independence(ctx, res, cfgs)
    # W: behaviour
    words = {}
    apiw = {}
    for n in names:
        ses, ws, I = session.process_byte_words(libs[n])
        words[n] = ws
        apiw[n] = {api: session.api_words(libs[n], api)[1] for api in ('cli::Cli::write', 'cli::Cli::set_prompt')}
    is_hist = [lambda l: l.startswith('H.')]
    fw = words[FULL]
    full_enter_nohist = None
    for n in names:
        D = [f for f in F.FEATURES if f not in cfgs[n]]
        for api, ws in apiw[n].items():
            good = ws == apiw[FULL][api]
            res.oblige("W|%s|%s" % (n, api), good, violation=None if good else dict(
                rule='C16.behaviour', key="C16|behaviour|%s|%s" % (n, api),
                msg="%s behaves differently in configuration %s than with all features" % (api, n)))
        for key in words[n]:
            if key not in fw:
                res.oblige("W|%s|%s" % (n, key), False, violation=dict(
                    rule='C16.behaviour', key="C16|behaviour|%s|%s" % (n, key),
                    msg="configuration %s (disabled: %s) has a path (%s) on which a byte is handled without reaching the key decoder: %s" % (
                        n, D, key, [" ".join(w) + "/" + s_ for w, s_ in sorted(words[n][key])[:3]])))
        for key in sorted(fw, key=str):
            got = words[n].get(key, set())
            exp = fw[key]
            if key in ('Up', 'Down') and 'history' in D:
                exp = {((), 'Ok')}
            elif key == 'Tab' and 'autocomplete' in D:
                exp = {((), 'Ok')}
            elif key == 'Enter':
                e2 = set()
                for word, status in fw['Enter']:
                    w2 = word
                    if 'history' in D:
                        # the push (and the read of the line that feeds it) disappears
                        w2 = list(w2)
                        if any(l.startswith('H.push') for l in w2):
                            i = [k for k, l in enumerate(w2) if l.startswith('H.push')][0]
                            if i > 0 and w2[i - 1] == 'E.text':
                                del w2[i - 1:i + 1]
                        w2 = tuple(w2)
                    if 'help' in D:
                        if any(l.startswith('from_command:') and not l.endswith(':None') for l in w2):
                            continue          # help paths do not exist
                        w2 = tuple(l for l in w2 if not l.startswith('from_command:'))
                    e2.add((w2, status))
                exp = e2
            good = got == exp
            res.oblige("W|%s|%s" % (n, key), good, sample="%s key %s: %d words" % (n, key, len(got)),
                       violation=None if good else dict(
                           rule='C16.behaviour', key="C16|behaviour|%s|%s" % (n, key),
                           msg="configuration %s (disabled: %s): key %s has event words that differ from the full configuration's "
                               "(after erasing the disabled facility): only here %s; only expected %s" % (
                                   n, D, key, [" ".join(w) + "/" + s for w, s in sorted(got - exp)[:3]],
                                   [" ".join(w) + "/" + s for w, s in sorted(exp - got)[:3]])))
    res.exhaustive = True
