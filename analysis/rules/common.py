"""Shared pieces of the E2 (event / typestate) rules: event classification by resolved callee,
outcome forking by declared return type, entry worlds for `Cli` methods, call-graph cut."""
from .. import facts as F
from ..absint import (TOP, UNIT, TRUE, FALSE, BOOL, U8_ANY, OPTION, RESULT, Interp, World, none, some, ok, err,
                      top_of_type, const_int, Inconclusive, fmt_val)
from ..callgraph import CallGraph

SINKERR = ('sym', 'sink-error')

SINK_TRAIT = 'embedded_io::Write'
FN_TRAITS = ('core::ops::function::FnOnce', 'core::ops::function::FnMut', 'core::ops::function::Fn')
USER_TRAITS = {
    'service::CommandProcessor': 'DISPATCH',
    'service::Help': 'CB',
    'service::Autocomplete': 'CB',
    'service::FromRaw': 'CB',
}
# traits of the crate under analysis may be printed with the crate prefix when seen from another crate
_CRATE_PREFIX = 'embedded_cli::'


def strip_crate(p):
    if p and p.startswith(_CRATE_PREFIX):
        return p[len(_CRATE_PREFIX):]
    if p and p.startswith('<' + _CRATE_PREFIX):
        return '<' + p[len(_CRATE_PREFIX) + 1:]
    return p


def pure_helper(body, module=None):
    """a small crate-local free function without loops or self-recursion (a predicate / table helper such as
    `fn is_blank(b: u8) -> bool`), optionally restricted to one module: safe and cheap to look into"""
    if body.kind != 'Fn' or len(body.blocks) > 40:
        return False
    if module is not None and body.npath.rsplit('::', 1)[0] != module:
        return False
    ids = {}
    # no back edges: every successor has a larger index is too strict for MIR; use a DFS for cycles
    succ = {}
    for i, b in enumerate(body.blocks):
        t = b['term']
        if t['k'] == 'switch':
            succ[i] = list(t['targets']) + [t['otherwise']]
        elif t.get('t') is not None:
            succ[i] = [t['t']]
        else:
            succ[i] = []
        if t['k'] == 'call' and F.norm_path((t['func'] or {}).get('path') or '') == body.npath:
            return False
    color = {}

    def cyclic(u):
        color[u] = 1
        for v in succ.get(u, ()):
            if color.get(v) == 1 or (color.get(v) is None and cyclic(v)):
                return True
        color[u] = 2
        return False
    return not cyclic(0)


def classify_extern(ci, args):
    """Event class of a call that has no body to look into (trait call on a type parameter, user callable)."""
    tr = strip_crate(ci.trait)
    if tr == SINK_TRAIT and not ci.resolved:
        return 'SINK_FLUSH' if ci.name == 'flush' else 'SINK_WRITE'
    if tr in USER_TRAITS and not ci.resolved:
        kind = USER_TRAITS[tr]
        return 'DISPATCH' if kind == 'DISPATCH' else 'CB:' + ci.name
    if tr in FN_TRAITS and args and args[0][0] not in ('closure', 'fn'):
        a = args[0]
        return 'CB:closure'
    return None


def outcomes_for_type(I, ty):
    """Possible abstract results of an opaque call returning `ty`: list of (label, value).

    Result<T, X>: Ok(⊤) and one Err per way X can be built; a payload of the sink's error type is the
    distinguished atom SINKERR so that its propagation can be followed."""
    if not ty:
        return [('', TOP)]
    k = ty.get('k')
    if k == 'bool':
        return [('true', TRUE), ('false', FALSE)]
    if k == 'adt':
        p = F.norm_path(ty['path'])
        if p == RESULT:
            out = [('Ok', ok(TOP if ty['args'][0].get('s') != '()' else UNIT))]
            et = ty['args'][1] if len(ty['args']) > 1 else {}
            if et.get('k') == 'param' or (et.get('k') == 'alias' and 'ErrorType>::Error' in et.get('s', '')):
                out.append(('Err(sink)', err(SINKERR)))
            elif et.get('k') == 'adt':
                ep = strip_crate(F.norm_path(et['path']))
                vs = I.adts.get(ep)
                if vs and vs['kind'] == 'enum':
                    for idx, v in enumerate(vs['variants']):
                        fields = tuple(SINKERR if f['ty'].get('k') == 'param' else TOP for f in v['fields'])
                        lab = 'Err(%s%s)' % (v['name'], ':sink' if SINKERR in fields else '')
                        out.append((lab, err(('adt', ep, idx, fields))))
                else:
                    out.append(('Err', err(TOP)))
            else:
                out.append(('Err', err(TOP)))
            return out
        if p == OPTION:
            return [('None', none()), ('Some', some(TOP))]
    return [('', top_of_type(ty))]


class EventRule:
    """Base class: rules define `local_events`, `step`, and optionally `inline_extra`/`no_inline`."""

    #: npath of local functions treated as events instead of being inlined -> event name
    local_events = {}
    #: local functions never inlined although they reach events
    no_inline = set()

    def __init__(self, crates):
        self.crates = crates
        self.cg = CallGraph(crates)
        self.violations = []
        self.sites = {}          # event name -> set of call-site keys seen
        self._interesting = self.cg.reaching(self._fn_has_event)

    # -- which functions must be looked into --
    def _fn_has_event(self, fn):
        for b in fn.blocks:
            t = b['term']
            if t['k'] != 'call':
                continue
            f = t['func']
            tr = strip_crate(f.get('trait'))
            if not f.get('resolved') and (tr == SINK_TRAIT or tr in USER_TRAITS):
                return True
            if tr in FN_TRAITS and not f.get('resolved'):
                return True
            np_ = F.norm_path(f.get('resolved') or f.get('path'))
            if np_ in self.local_events or F.norm_path(f.get('path')) in self.local_events:
                return True
        return self.extra_interesting(fn)

    def extra_interesting(self, fn):
        return False

    def transparent(self, body):
        """thin wrappers whose events are attributed to their caller (crate-private WriteExt helpers)"""
        return bool(body.impl_trait) and body.impl_trait.endswith('writer::WriteExt')

    def inline_ok(self, I, ci, body):
        if body.npath in self.no_inline:
            return False
        if F.raw_key(body.path) in self._interesting:
            return True
        # an event-free local function that returns Result<_, sink error> (e.g. the no-op twin of a feature-gated method):
        # look into it, otherwise its declared type alone would suggest an Err outcome that no path produces
        rt = body.body['locals'][0]['ty']
        if rt.get('k') == 'adt' and F.norm_path(rt.get('path')) == RESULT and len(rt.get('args', [])) > 1 and len(body.blocks) <= 40:
            et = rt['args'][1]
            if et.get('k') == 'param' or (et.get('k') == 'alias' and 'ErrorType>::Error' in et.get('s', '')):
                return not any(b['term']['k'] == 'call' and F.norm_path((b['term']['func'] or {}).get('path') or '') == body.npath
                               for b in body.blocks)
        return False

    # -- events --
    def classify(self, I, w, ci, args):
        for p in (ci.nresolved, ci.npath):
            if p in self.local_events:
                return self.local_events[p]
        return classify_extern(ci, args)

    def on_call(self, I, w, ci, args):
        ev = self.classify(I, w, ci, args)
        if ev is None:
            return None
        self.sites.setdefault(ev, set()).add(ci.where(I)[0])
        res = []
        for lab, val in self.outcomes(I, w, ci, args, ev):
            for w2 in self.step(I, w, ev, lab, ci, args):
                w3 = self.havoc_args(I, w2, ci, args, ev)
                res.append((w3, val))
        return res

    def outcomes(self, I, w, ci, args, ev):
        if ev in ('SINK_WRITE', 'SINK_FLUSH'):
            return [('Ok', ok(TOP if ev == 'SINK_WRITE' else UNIT)), ('Err(sink)', err(SINKERR))]
        return outcomes_for_type(I, ci.dest_ty)

    def havoc_args(self, I, w, ci, args, ev):
        """user code may mutate whatever it gets a `&mut` to"""
        if ev.startswith('CB') or ev == 'DISPATCH':
            pairs = []
            for a, ty in zip(args, ci.arg_tys):
                pairs.append((a, ty))
                # Fn* call ABI: the arguments arrive as one tuple
                if ty.get('k') == 'tuple' and a[0] == 'tuple' and len(ty.get('of', [])) == len(a[1]):
                    pairs.extend(zip(a[1], ty['of']))
            for a, ty in pairs:
                if ty.get('k') == 'ref' and ty.get('mut') and a[0] == 'ref' and a[1][0] not in ('const', 'val'):
                    w = self.havoc_target(I, w, a[1], ev)
        return w

    def on_opaque(self, I, w, ci, args):
        """A closure that can reach an event (sink write, user callback) handed to a function the analysis has neither a
        body nor a model for: how often it runs and what becomes of its results is unknown, so nothing can be decided
        about the events inside it (fail closed)."""
        def closures(v, d=0):
            if d > 4 or not isinstance(v, tuple) or not v:
                return
            if v[0] == 'closure':
                yield v
                for x in v[2]:
                    for c in closures(x, d + 1):
                        yield c
            elif v[0] == 'ref' and v[1] and v[1][0] not in ('const', 'val'):
                try:
                    for c in closures(I.read(w, v[1]), d + 1):
                        yield c
                except Exception:
                    return
            elif v[0] == 'ref' and v[1] and v[1][0] == 'const':
                for c in closures(v[1][1], d + 1):
                    yield c
            elif v[0] == 'adt':
                for x in v[3]:
                    for c in closures(x, d + 1):
                        yield c
            elif v[0] == 'tuple':
                for x in v[1]:
                    for c in closures(x, d + 1):
                        yield c
        for a in args:
            for c in closures(a):
                if F.raw_key(c[1]) in self._interesting:
                    raise Inconclusive("a closure that performs sink writes or user callbacks (%s) is passed to `%s` at %s, "
                                       "for which there is no model: how often it runs and whether its results are "
                                       "propagated cannot be decided" % (F.norm_path(c[1]), ci.npath, ci.span))

    def havoc_target(self, I, w, target, ev):
        return I.write(w, target, TOP)

    def step(self, I, w, ev, outcome, ci, args):
        """-> list of successor worlds (usually one, with an updated st)"""
        return [w]

    # -- reporting --
    def violation(self, rule, key, msg, **extra):
        d = dict(rule=rule, key=key, msg=msg)
        d.update(extra)
        if not any(v['key'] == key and v['rule'] == rule for v in self.violations):
            self.violations.append(d)


# ---------------------------------------------------------------------------------------------
# entry worlds


def lib_crate(crates):
    return crates['embedded_cli']


def cli_entry_store(I, editor=None, input_generator=None, **fields):
    """A `Cli` value in a pseudo-frame cell (-1, 0) and the `&mut self` reference to it.
    By default editor and input_generator are `Some(⊤)` (the invariant rule C14(a) establishes)."""
    cli = I.make_adt('cli::Cli',
                     editor=editor if editor is not None else some(TOP),
                     input_generator=input_generator if input_generator is not None else some(TOP),
                     **fields)
    store = {(-1, 0): cli}
    return store, ('ref', (-1, 0, ()))


def cli_public_entries(lib):
    """Public inherent methods of Cli / CliBuilder::build (discovered, not listed)."""
    out = []
    for f in lib.lib_fns():
        if f.kind == 'AssocFn' and f.vis in ('pub', 'crate') and f.impl_trait is None and f.impl_self \
                and f.impl_self.get('k') == 'adt' and F.norm_path(f.impl_self['path']) in ('cli::Cli',):
            out.append(f)
    return out


def ret_is_ok(rv):
    return rv[0] == 'adt' and rv[1] == RESULT and rv[2] == 0


def ret_is_err(rv):
    return rv[0] == 'adt' and rv[1] == RESULT and rv[2] == 1


def contains_value(v, needle, depth=0):
    if v == needle:
        return True
    if depth > 8:
        return False
    if v[0] == 'adt':
        return any(contains_value(x, needle, depth + 1) for x in v[3])
    if v[0] == 'tuple':
        return any(contains_value(x, needle, depth + 1) for x in v[1])
    return False
