"""C01 — Enter dispatches exactly the visible line, exactly once.

Decided on the event words of `Cli::process_byte` (all paths, all outcomes; see rules/session.py):
 D1 only the Enter key reaches `CommandProcessor::process`; `Cli::write`/`set_prompt` never do;
    no path dispatches twice.
 D2 every Enter word begins with CR LF; hands the edit buffer out once, tokenises exactly that buffer
    (`Tokens::new(line_mut)`), builds the raw command from exactly those tokens; on `None` (no token)
    nothing is dispatched and no callback runs; on `Some` the command that is dispatched is
    `cmd(tokens(line_mut))` — no other value can reach the handler — exactly once iff the line is not a help
    request (help feature on: decided by `HelpRequest::from_command`), zero times otherwise.
 D3 every Ok word ends with an editor reset followed by exactly one prompt write and a flush; the Enter arm
    performs no other editor mutation; with history on the line is pushed (from `Editor::text`) before the rewrite.
 D4 `RawCommand::from_tokens`: name = first item of the token iterator, arguments = the remaining tokens,
    `None` iff there is no first item.
Not decided here: that the tokens equal the visible line after arbitrary editing (C05, C07, C08).
"""
import re
from .. import facts as F
from ..absint import Interp, TOP, OPTION, none, some
from .common import EventRule, lib_crate, ret_is_err
from . import session
from . import C14 as base

LEVEL = "other"
IMPORTS = [
    ("C04", None, "the keys that assemble the line, and the Enter that submits it, are decoded from the byte stream"),
    ("C05", None, "`the line as it stood after every insertion, deletion and cursor move` is the editor's content"),
    ("C06", ("C06.sync",), "the line the user sees is the editor's line (title: the *visible* line)"),
    ("C10", ("C10.recall-entry", "C10.whole-entry"), "`history recall ... that led to it`: a recall replaces the line by one stored entry, whole and unmodified"),
    ("C11", ("C11.line-content",), "`completion that led to it`: after Tab the line is the request plus the bytes the completion added (and at most one blank), nothing else"),
    ("C07", None, "the handler receives the tokens of that line"),
    ("C08", ("C08.classify",), "the arguments the handler reads are the classified tokens"),
]


def count(word, pred):
    return sum(1 for l in word if pred(l))


def idx(word, pred):
    for i, l in enumerate(word):
        if pred(l):
            return i
    return -1


def check_enter_word(res, cfg, word, status, reset_names, help_on, has_history):
    sw = " ".join(word)
    def ob(clause, good, msg):
        key = "C01|%s|%s" % (clause, msg)
        res.oblige("%s|%s|%s|%s" % (clause, cfg, status, sw), good,
                   violation=None if good else dict(rule='C01.' + clause, key=key,
                                                    msg="Enter arm (%s exit, %s): %s; word: %s" % (status, cfg, msg, sw)))
    nd = count(word, lambda l: l.startswith('DISPATCH('))
    ob('once', nd <= 1, "dispatches more than once on one path")
    if not word:
        return
    ob('crlf-first', word[0] in ('W:CRLF', 'W!'), "does not start by moving to a fresh line")
    def d3():
        # D3 holds for every Enter path, whether or not it tokenises the line (a shortcut for a blank line included)
        emut = [l for l in word if l.startswith('E.') and l.split(':')[0].split('(')[0] not in
                ('E.text', 'E.text_mut', 'E.cursor', 'E.len', 'E.text_range') + tuple('E.' + n for n in reset_names)]
        ob('no-other-edit', not emut, "mutates the editor other than by rewrite and reset: %s" % emut)
        if status == 'Ok':
            endok = len(word) >= 2 and word[-2] in tuple('E.' + n for n in reset_names) and word[-1] in ('W:prompt', 'W:var')
            ob('reset-then-prompt', endok, "does not end with editor reset and one prompt")
            ob('one-prompt', count(word, lambda l: l == 'W:prompt') <= 1, "prints the prompt more than once")
    d3()
    nmut = count(word, lambda l: l == 'E.text_mut')
    ob('rewrite-once', nmut <= 1, "hands the edit buffer out more than once")
    # everything before text_mut must not dispatch
    i = idx(word, lambda l: l == 'E.text_mut')
    if i < 0:
        ob('no-dispatch-before-tokens', nd == 0, "dispatches without tokenising the line")
        return
    rest = word[i + 1:]
    if has_history:
        pre = word[:i]
        ob('history-before-rewrite', 'H.push(line)' in pre and 'E.text' in pre and pre.index('E.text') < pre.index('H.push(line)'),
           "the submitted line is not pushed to history (from Editor::text) before the in-place rewrite")
    good_tok = len(rest) >= 2 and rest[0] == 'T.new(line_mut)' and rest[1].startswith('from_tokens(tokens(line_mut)):')
    ob('tokens-of-line', good_tok, "the tokens / raw command are not built from the edit buffer itself")
    if not good_tok:
        return
    ft = rest[1].rsplit(':', 1)[1]
    tail = rest[2:]
    ncb = count(tail, lambda l: l.startswith('CB:'))
    if ft == 'None':
        ob('empty-line', nd == 0 and ncb == 0, "an empty line reaches the handler or a callback")
    else:
        if help_on:
            fc = tail[0] if tail else ''
            ok_fc = fc.startswith('from_command:')
            ob('help-checked-first', ok_fc, "the help check does not directly follow command construction")
            if ok_fc:
                if fc == 'from_command:None':
                    nxt = tail[1] if len(tail) > 1 else ''
                    ob('dispatch-line', nxt.startswith('DISPATCH(cmd(tokens(line_mut))):') and nd == 1,
                       "a non-help command is not dispatched exactly once with the command built from the line")
                else:
                    ob('help-not-dispatched', nd == 0, "a help request reaches the handler")
        else:
            nxt = tail[0] if tail else ''
            ob('dispatch-line', nxt.startswith('DISPATCH(cmd(tokens(line_mut))):') and nd == 1,
               "a command is not dispatched exactly once with the command built from the line")


def check_from_tokens(res, lib, ses):
    """D4 by abstract interpretation of RawCommand::from_tokens with the iterator methods as symbolic events."""
    class R(EventRule):
        local_events = {}

        def __init__(self, crates):
            self.local_events = {}
            for f in lib.lib_fns():
                if base.self_adt(f) == 'token::Tokens' and f.name == 'iter':
                    self.local_events[f.npath] = 'iter'
                if base.self_adt(f) == 'token::TokensIter' and f.name == 'into_tokens':
                    self.local_events[f.npath] = 'rest'
                if base.self_adt(f) == 'token::TokensIter' and f.impl_trait and f.impl_trait.endswith('Iterator') and f.name == 'next':
                    self.local_events[f.npath] = 'next'
                if base.self_adt(f) == 'arguments::ArgList' and f.name == 'new':
                    self.local_events[f.npath] = 'arglist'
            super().__init__(crates)

        def classify(self, I, w, ci, args):
            for p in (ci.nresolved, ci.npath):
                if p in self.local_events:
                    return self.local_events[p]
            return None

        def outcomes(self, I, w, ci, args, ev):
            if ev == 'iter':
                return [('', ('sym', 'it'))]
            if ev == 'next':
                n = w.st.count('next')
                return [('None', none()), ('Some', some(('sym', 'item%d' % n)))]
            if ev == 'rest':
                return [('', ('sym', 'rest_after_%d' % w.st.count('next')))]
            if ev == 'arglist':
                return [('', ('sym', 'args(%s)' % session.atom_name(args[0])))]
            return [('', TOP)]

        def step(self, I, w, ev, outcome, ci, args):
            return [w.with_st(w.st + (ev,))]

    f = ses.from_tokens
    rule = R([lib])
    if len(rule.local_events) < 4:
        raise KeyError("from_tokens: iterator anchors not found (%s)" % sorted(rule.local_events.values()))
    I = Interp([lib], rule)
    exits = I.run(f, [TOP], (), {})
    ni = I.field_index('command::RawCommand', 'name')
    ai = I.field_index('command::RawCommand', 'args')
    for w, rv in exits:
        if rv[0] == 'adt' and rv[1] == OPTION and rv[2] == 0:
            good = w.st == ('iter', 'next')
            msg = "returns None on a path other than `no first token`"
        elif rv[0] == 'adt' and rv[1] == OPTION and rv[2] == 1 and rv[3][0][0] == 'adt':
            c = rv[3][0]
            good = c[3][ni] == ('sym', 'item0') and c[3][ai] == ('sym', 'args(rest_after_1)')
            msg = "name/arguments are not (first token, remaining tokens): name=%s args=%s" % (c[3][ni], c[3][ai])
        else:
            good = False
            msg = "unexpected return shape %s" % (rv[:3],)
        res.oblige("D4|%s|%s" % (w.st, rv[2] if rv[0] == 'adt' else '?'), good, sample="from_tokens events=%s" % (w.st,),
                   violation=None if good else dict(rule='C01.from_tokens', key="C01|from_tokens|%s" % msg[:50],
                                                    msg="%s: %s" % (f.npath, msg)))


def run(ctx, res):
    res.explanation = __doc__
    res.rule_text = "one obligation per (clause, config, event word of the Enter arm / other key / API)"
    for cfg in ctx.feature_configs():
        lib = lib_crate(ctx.crates(cfg))
        eff = base.editor_effects(lib)
        reset_names = [e['name'] for e in eff.values() if e['reset']]
        ses, words, I = session.process_byte_words(lib)
        words = session.shaped(words)      # flushes are C15's; an empty text skipped = an empty write
        if 'Enter' not in words or len(words) < 9:
            raise KeyError("process_byte: key arms not found (%s)" % sorted(words))
        if not ses.sites.get('DISPATCH'):
            raise KeyError("no CommandProcessor::process call site found")
        for key, ws in words.items():
            for word, status in ws:
                if key == 'Enter':
                    check_enter_word(res, cfg, word, status, reset_names, ses.from_command is not None, ses.has_history)
                else:
                    nd = sum(1 for l in word if l.startswith('DISPATCH'))
                    res.oblige("D1|%s|%s|%s|%s" % (cfg, key, status, " ".join(word)), nd == 0,
                               violation=None if nd == 0 else dict(
                                   rule='C01.only-enter', key="C01|only-enter|%s" % key,
                                   msg="key %s can reach the command handler: %s [%s]" % (key, " ".join(word), cfg)))
        if len(res.samples) < 6:
            for word, status in sorted(words['Enter'])[:3]:
                res.samples.append("Enter/%s: %s" % (status, " ".join(word)))
        for api in ('cli::Cli::write', 'cli::Cli::set_prompt'):
            r2, ws = session.api_words(lib, api)
            ws = session.shaped(ws)
            for word, status in ws:
                nd = sum(1 for l in word if l.startswith('DISPATCH'))
                res.oblige("D1|%s|%s|%s|%s" % (cfg, api, status, " ".join(word)), nd == 0,
                           violation=None if nd == 0 else dict(rule='C01.only-enter', key="C01|only-enter|%s" % api,
                                                               msg="%s can reach the command handler [%s]" % (api, cfg)))
        check_from_tokens(res, lib, ses)
        res.extra['keys'] = sorted(words)
        res.extra['dispatch_sites'] = sorted(ses.sites.get('DISPATCH', ()))
    res.exhaustive = True
    res.assumptions = ["Tokens::new / from_tokens / from_command are summarised by symbolic results here; their own behaviour "
                       "is the subject of C07 / D4 above / C12"]
