"""C17 — every Unicode scalar value survives typing, editing, submission and option use.

Decided clauses:
 A  decoder identity (exact, all scalars): from every reachable state of the extracted scalar decoder, each well-formed
    sequence of every row of Unicode Table 3-7 (i.e. every scalar value, in its unique encoding) is emitted as exactly
    those bytes, one `Char` per scalar (shared engine with C02 U2); printable ASCII 0x20..0x7E is emitted as is.
 B  bit-exact encode / decode (bit-provenance domain, analysis/bitdom.py): for each of the four encoded lengths, with the
    scalar's payload bits symbolic, `utils::encode_utf8` writes exactly the UTF-8 definition's bytes
    (0xxxxxxx | 110xxxxx 10xxxxxx | 1110xxxx 10xxxxxx 10xxxxxx | 11110xxx 10xxxxxx 10xxxxxx 10xxxxxx, payload bits in
    order) and returns the prefix of that length; `utils::char_pop_front` reassembles exactly those bits into the scalar
    and returns exactly the bytes after it, whether or not text follows. Hence encode ∘ pop = id for every scalar.
 C  byte transparency: in every state of the extracted tokenizer transducer the class of bytes >= 0x80 behaves exactly
    like an ordinary letter (C07's transducer); the argument classifier's tests only distinguish '-' (C08's table).
 D  counting helpers: `char_count`, `char_byte_index`, `common_prefix_len` feed every byte of the text, in order, exactly
    once per iteration into a fresh `Utf8Accum` and step their scalar counter iff it reports a completed scalar
    (loop step relation extracted by abstract interpretation); with A this gives "count = number of scalars",
    "index = offset of the k-th scalar", "prefix ends on a boundary" (the composition is an argument, its two premises
    are checked).
"""
import sys
from .. import facts as F
from .. import bitdom as B
from .. import fsm
from ..absint import (Inconclusive, place_index, Interp, TOP, OPTION, none, some, const_int, mk_int, int_singleton, TRUE, FALSE, BOOL, UNIT, World)
from .common import lib_crate
from . import C14 as base
from . import C02
from . import C07

sys.path.insert(0, F.VERIF)
from specs import utf8 as spec  # noqa: E402

LEVEL = "other"
IMPORTS = [
    ("C04", None, "`can be typed`: every scalar from U+0020 upward is decoded from its bytes into exactly one character key, none of its bytes being taken for a control"),
    ("C05", ("C05.units", "C05.move", "C05.content"), "`moved over, deleted`: cursor positions are whole characters for every encoded length"),
    ("C12", ("C12.from_command",), "`h` alone is reserved: no other scalar used as a short option is taken for the help option"),
]

# (number of payload bits, [(byte prefix bits (MSB first), number of payload bits in that byte)], scalar range)
FORMS = [
    (7, [("0", 7)], (0x00, 0x7F)),
    (11, [("110", 5), ("10", 6)], (0x80, 0x7FF)),
    (16, [("1110", 4), ("10", 6), ("10", 6)], (0x800, 0xFFFF)),
    (21, [("11110", 3), ("10", 6), ("10", 6), ("10", 6)], (0x10000, 0x10FFFF)),
]


def utf8_bytes(nbits, layout):
    """bytes of the encoding with symbolic payload bits ('s', k), k = bit index in the scalar"""
    out = []
    hi = nbits
    for prefix, n in layout:
        bits_msb = [int(c) for c in prefix] + [('s', k) for k in range(hi - 1, hi - 1 - n, -1)]
        hi -= n
        out.append(B.bv(8, list(reversed(bits_msb))))
    return out


def scalar_bits(nbits, lo, hi):
    return B.bv(32, [('s', k) for k in range(nbits)] + [0] * (32 - nbits), lo, hi)


class BitRule:
    def __init__(self):
        self.stores = {}
        self.problems = []

    def inline_ok(self, I, ci, body):
        return False

    def _w(self, ty):
        if ty and ty.get('k') == 'int':
            return ty['w']
        if ty and ty.get('k') == 'char':
            return 32
        if ty and ty.get('k') == 'bool':
            return 1
        return 32

    def eval_bin(self, I, w, op, a, b, lty):
        width = self._w(lty)
        base_op = op.replace('WithOverflow', '').replace('Unchecked', '')
        if base_op in ('Shl', 'Shr'):
            aa = B.from_value(a, width)
            bb = B.from_value(b, 32)
        else:
            aa, bb = B.from_value(a, width), B.from_value(b, width)
        if aa is None or bb is None:
            return None
        r = B.binop(base_op, aa, bb)
        if base_op in ('Eq', 'Ne', 'Lt', 'Le', 'Gt', 'Ge'):
            return TRUE if r is True else FALSE if r is False else BOOL
        return r

    def eval_cast(self, I, w, kind, x, from_ty, to_ty):
        if kind == 'IntToInt':
            return B.cast(x, self._w(to_ty))
        return None

    def on_load(self, I, w, depth, place):
        v = w.store.get((depth, place['l']), TOP)
        if v[0] != 'bstr':
            return None
        iv = place_index(w, depth, place)
        n = int_singleton(iv) if iv is not None and iv[0] == 'int' else None
        if n is None:
            return None
        if n < len(v[1]):
            return [(w, v[1][n])]
        if v[2] == 'more' and n == len(v[1]):
            # the byte after the scalar: any byte that is not a continuation byte (0xxxxxxx or 11xxxxxx)
            return [(w, B.bv(8, ['?'] * 7 + [0])), (w, B.bv(8, ['?'] * 6 + [1, 1]))]
        self.problems.append("reads byte %d of a text that has only %d" % (n, len(v[1])))
        return [(w, B.bv(8, ['?'] * 8))]

    def on_store(self, I, w, depth, place, v, stmt):
        b = w.store.get((depth, place['l']), TOP)
        if b != ('sym', 'outbuf'):
            return None
        idx = [e for e in place['p'] if e['k'] == 'index'][0]['l']
        n = int_singleton(w.store.get((depth, idx), TOP))
        vv = B.from_value(v, 8)
        return w.with_st(w.st + (('store', n, vv),))

    def on_call(self, I, w, ci, args):
        p = ci.npath or ''
        name = ci.name
        a0 = args[0] if args else TOP
        if a0[0] == 'ref' and a0[1][0] not in ('const', 'val'):
            a0v = I.read(w, a0[1])
        else:
            a0v = a0
        if p in ('core::str::<impl str>::as_bytes', 'core::str::converts::from_utf8_unchecked'):
            return [(w, args[0])]
        if p in ('core::str::<impl str>::is_empty', 'core::slice::<impl [T]>::is_empty') and a0v[0] == 'bstr':
            if a0v[1]:
                return [(w, FALSE)]
            return [(w, TRUE if a0v[2] in ('end', 'over') else FALSE)]
        if name in ('index', 'get_unchecked') and len(args) == 2 and a0v[0] == 'bstr':
            r = args[1]
            if r[0] == 'adt' and r[1].endswith('RangeFrom') and int_singleton(r[3][0]) is not None:
                k = int_singleton(r[3][0])
                if k <= len(a0v[1]):
                    return [(w, ('bstr', a0v[1][k:], a0v[2]))]
                return [(w, ('bstr', (), 'over'))]      # consumed bytes beyond the scalar
            return None
        if name in ('index', 'get_unchecked') and len(args) == 2 and a0v == ('sym', 'outbuf'):
            r = args[1]
            if r[0] == 'adt' and r[1].endswith('RangeTo') and int_singleton(r[3][0]) is not None:
                return [(w.with_st(w.st + (('ret', int_singleton(r[3][0])),)), ('sym', 'outslice'))]
            return None
        if p.endswith('from_u32_unchecked'):
            return [(w, ('chr', B.from_value(args[0], 32)))]
        return None


def check_pop(res, lib):
    f = lib.fn('utils::char_pop_front')
    for nbits, layout, (lo, hi) in FORMS:
        by = utf8_bytes(nbits, layout)
        want = scalar_bits(nbits, 0, (1 << nbits) - 1)
        for rest in ('end', 'more'):
            rule = BitRule()
            I = Interp([lib], rule)
            ex = I.run(f, [('bstr', tuple(by), rest)], (), {})
            key = "pop|%d-byte|%s" % (len(by), rest)
            good = bool(ex) and not rule.problems
            why = "; ".join(rule.problems)
            for w, rv in ex:
                ok = rv[0] == 'adt' and rv[1] == OPTION and rv[2] == 1 and rv[3][0][0] == 'tuple'
                if ok:
                    ch, tail = rv[3][0][1]
                    ok = ch[0] == 'chr' and ch[1] is not None and ch[1][2] == want[2] and tail == ('bstr', (), rest)
                    if not ok:
                        why = "decodes to %s and leaves %s" % (B.fmt(ch[1]) if ch[0] == 'chr' and ch[1] else ch, tail[1:] if tail[0] == 'bstr' else tail)
                else:
                    why = "returns %s" % (rv[:3],)
                good = good and ok
            res.oblige("B|" + key, good, sample="char_pop_front on a %d-byte scalar (%s) -> scalar bits in order" % (len(by), rest),
                       violation=None if good else dict(
                           rule='C17.pop', key="C17|pop|%d-byte" % len(by),
                           msg="utils::char_pop_front on a %d-byte encoded scalar (%s text after it): %s; expected the scalar %s and "
                               "exactly the following text" % (len(by), 'with' if rest == 'more' else 'no', why, B.fmt(want))))


def check_encode(res, lib):
    f = lib.fn('utils::encode_utf8')
    for nbits, layout, (lo, hi) in FORMS:
        want = utf8_bytes(nbits, layout)
        rule = BitRule()
        I = Interp([lib], rule)
        ch = scalar_bits(nbits, lo, hi)
        ex = I.run(f, [ch, ('sym', 'outbuf')], (), {})
        key = "encode|%d-byte" % len(want)
        good = bool(ex)
        why = ''
        for w, rv in ex:
            stores = {}
            ret = None
            for e in w.st:
                if e[0] == 'store':
                    stores[e[1]] = e[2]
                elif e[0] == 'ret':
                    ret = e[1]
            got = [stores.get(i) for i in range(len(want))]
            ok = ret == len(want) and all(g is not None and g[2] == x[2] for g, x in zip(got, want)) and rv == ('sym', 'outslice')
            if not ok:
                why = "writes %s and returns the first %s bytes" % (" ".join(B.fmt(g) if g else '-' for g in got), ret)
            good = good and ok
        res.oblige("B|" + key, good, sample="encode_utf8 of a scalar in %X..%X -> %s" % (lo, hi, " ".join(B.fmt(x) for x in want)),
                   violation=None if good else dict(
                       rule='C17.encode', key="C17|encode|%d-byte" % len(want),
                       msg="utils::encode_utf8 for scalars %X..%X %s; UTF-8 requires %s" % (lo, hi, why, " ".join(B.fmt(x) for x in want))))


def check_transparency(res, lib):
    fn, I, rule, classes = C07.extract(lib)
    hi = [c for c in classes if min(c) >= 0x80]
    letters = [c for c in classes if min(c) > 0x22 and max(c) < 0x5C and 0x2D not in c] or \
              [c for c in classes if 0x61 in c]
    if not hi or not letters:
        raise KeyError("tokenizer alphabet: classes for bytes >= 0x80 / letters not found (%s)" % [fsm.cls_name(c) for c in classes])
    let = letters[0]
    states = {s for (s, c) in rule.trans}
    # the tokenizer may not single out any byte >= 0x80 (a constant of the code that splits that range is judged like the rest)
    for hic in hi:
        for s in states:
            a = {(s2, C07.simplify(o)) for s2, o in rule.trans.get((s, hic), ())}
            b = {(s2, C07.simplify(o)) for s2, o in rule.trans.get((s, let), ())}
            good = a == b and bool(a)
            res.oblige("C|tokenizer|%s|%s" % (fsm.cls_name(hic), s), good, violation=None if good else dict(
                rule='C17.transparent', key="C17|transparent|tokenizer|%s" % fsm.cls_name(hic),
                msg="%s: in state %s a byte in [%s] (part of a multi-byte character) is treated differently (%s) from an ordinary "
                    "letter (%s)" % (fn.npath, s, fsm.cls_name(hic), sorted(a, key=str), sorted(b, key=str))))
    res.samples.append("tokenizer: classes %s behave like [%s] in %d states" % ([fsm.cls_name(h) for h in hi], fsm.cls_name(let), len(states)))


class StepRule:
    """loop step relation of the counting helpers"""

    def __init__(self, fn):
        self.fn = fn
        self.named = {i: l['name'] for i, l in enumerate(fn.body['locals']) if l['name']}
        self.steps = set()
        self.problems = []
        self.by_value = set()
        self.enumerated = False
        self.initial = set()
        self.text_empty = None      # None: unknown; True / False: the text is assumed empty / non-empty (result ties)

    def inline_ok(self, I, ci, body):
        from .common import pure_helper
        return pure_helper(body, self.fn.npath.rsplit('::', 1)[0])

    def state(self, w, depth, prev=None, evs=()):
        """named integer locals of the helper's frame plus pseudo variables (exact up to the widening bound, like every
        other counter): `#n` the number of items the iterator has yielded so far, `#s` the number of those on which the scalar
        decoder reported a completed scalar, `#l` whether the last byte fed to the decoder completed one (1 at the start)"""
        from .. import absint
        out = []
        for (d, l), v in w.store.items():
            if d == depth and l in self.named and v[0] == 'int':
                out.append((self.named[l], v))
        wide = ('int', frozenset(), 0)
        if prev is None:
            n, sc, last = const_int(0), const_int(0), const_int(1)
        else:
            pd = dict(prev)
            k = int_singleton(pd.get('#n', wide))
            n = const_int(k + 1) if k is not None and k + 1 < absint.WIDEN_AT else wide
            pushes = [e for e in evs if e[0] == 'push']
            k = int_singleton(pd.get('#s', wide))
            k2 = None if k is None else k + sum(1 for e in pushes if e[3] == 'Some')
            sc = const_int(k2) if k2 is not None and k2 < absint.WIDEN_AT else wide
            last = const_int(1 if pushes[-1][3] == 'Some' else 0) if pushes else pd.get('#l', wide)
        out += [('#n', n), ('#s', sc), ('#l', last)]
        return tuple(sorted(out))

    def on_call(self, I, w, ci, args):
        p = ci.nresolved or ci.npath or ''
        if p.endswith('Default>::default') and 'Utf8Accum' in p:
            return [(w, ('sym', 'fresh-accum'))]
        if ci.npath == 'core::str::<impl str>::as_bytes':
            return [(w, args[0])]
        if ci.name in ('iter', 'into_iter', 'bytes') and args and args[0][0] == 'sym':
            if args[0][1].startswith(('iter(', 'zip(', 'enumerate(')):
                return [(w, args[0])]
            nm_ = 'iter(%s)' % args[0][1]
            if ci.name == 'bytes':
                self.by_value.add(nm_)          # `str::bytes()` yields the bytes themselves, `iter()` references to them
            return [(w, ('sym', nm_))]
        if ci.name in ('enumerate', 'take_while', 'copied', 'cloned') and args and args[0][0] == 'sym':
            # adaptors that keep the element order: `enumerate` pairs each element with its exact position (a byte counter
            # by construction), `take_while` may only end the iteration early
            if ci.name == 'enumerate':
                self.enumerated = True
                return [(w, ('sym', 'enumerate(%s)' % args[0][1]))]
            return [(w, args[0])]
        if ci.name == 'zip' and len(args) == 2:
            return [(w, ('sym', 'zip(%s,%s)' % (args[0][1] if args[0][0] == 'sym' else '?', args[1][1] if args[1][0] == 'sym' else '?')))]
        if ci.name == 'next' and args:
            it = args[0]
            itv = I.read(w, it[1]) if it[0] == 'ref' else it
            prev, evs = w.st
            cur = self.state(w, ci.depth, prev, evs)
            if prev is not None:
                self.steps.add((prev, evs, cur))
            else:
                self.initial.add(cur)
            name = itv[1] if itv[0] == 'sym' else '?'
            enum = name.startswith('enumerate(')
            if enum:
                name = name[len('enumerate('):-1]
            byv = any(n in name for n in self.by_value)
            wrap = (lambda x: x) if byv else (lambda x: ('ref', ('const', x)))
            if name.startswith('zip('):
                item = ('tuple', (wrap(('sym', 'b1')), wrap(('sym', 'b2'))))
            else:
                item = wrap(('sym', 'b'))
            if enum:
                # `enumerate` pairs each element with its exact position: the number of items yielded before it
                item = ('tuple', (dict(cur)['#n'], item))
            outs = [(w.with_st((cur, (('over', name),))), some(item)), (w.with_st((cur, (('end', name),))), none())]
            if self.text_empty is True:
                return outs[1:]
            if self.text_empty is False and prev is None:
                return outs[:1]
            return outs
        if p.endswith('Utf8Accum::push_byte'):
            prev, evs = w.st
            acc = I.read(w, args[0][1]) if args[0][0] == 'ref' else args[0]
            b = args[1]
            lab = ('push', acc[1] if acc[0] == 'sym' else '?', b[1] if b[0] == 'sym' else '?')
            return [(w.with_st((prev, evs + (lab + ('Some',),))), some(TOP)), (w.with_st((prev, evs + (lab + ('None',),))), none())]
        if ci.npath in ('core::str::<impl str>::len', 'core::slice::<impl [T]>::len'):
            if self.text_empty is not None:
                return [(w, const_int(0) if self.text_empty else ('int', frozenset(), 1))]
            return [(w, ('int', frozenset(), 0))]
        if ci.npath in ('core::str::<impl str>::is_empty', 'core::slice::<impl [T]>::is_empty') and self.text_empty is not None:
            return [(w, TRUE if self.text_empty else FALSE)]
        return None


class ClassStepRule(StepRule):
    def __init__(self, fn, classes):
        StepRule.__init__(self, fn)
        self.classes = classes

    def on_call(self, I, w, ci, args):
        if ci.name == 'next' and args:
            it = args[0]
            itv = I.read(w, it[1]) if it[0] == 'ref' else it
            prev, evs = w.st
            cur = self.state(w, ci.depth, prev, evs)
            if prev is not None:
                self.steps.add((prev, evs, cur))
            else:
                self.initial.add(cur)
            out = [(w.with_st((cur, (('end',),))), none())]
            byv = itv[0] == 'sym' and any(n in itv[1] for n in self.by_value)
            for c in self.classes:
                item = ('int', c, None) if byv else ('ref', ('const', ('int', c, None)))
                if itv[0] == 'sym' and itv[1].startswith('zip('):
                    item = ('tuple', (item, item))
                out.append((w.with_st((cur, (('class', c),))), some(item)))
            return out
        return StepRule.on_call(self, I, w, ci, args)


def check_counting_by_filter(res, lib, f, classes):
    """`bytes.iter().filter(pred).count()`: the count is the number of bytes satisfying pred; pred is evaluated abstractly
    on every byte class and must hold exactly on first bytes of scalars"""
    captured = []

    class R:
        def inline_ok(self, I, ci, body):
            return False

        def on_call(self, I, w, ci, args):
            if ci.name == 'filter' and len(args) == 2:
                captured.append(args[1])
                return [(w, ('sym', 'filtered'))]
            if ci.name == 'count' and args and args[0] == ('sym', 'filtered'):
                return [(w.with_st('counted'), ('sym', 'count'))]
            if ci.name in ('iter', 'into_iter', 'as_bytes', 'copied', 'cloned'):
                return [(w, args[0])]
            return None
    I = Interp([lib], R())
    ex = I.run(f, [('sym', 'text')] + [TOP] * (f.body['arg_count'] - 1), None, {})
    if len(captured) != 1 or not all(rv == ('sym', 'count') for w, rv in ex):
        return False
    clos = captured[0]
    body = I.by_path.get(F.raw_key(clos[1])) if clos[0] == 'closure' else None
    if body is None:
        return False
    if clos[2] and stateful_filter(res, lib, f, clos, body, classes):
        return True
    sub = Interp([lib], None)
    env = ('ref', ('const', clos)) if body.body['locals'][1]['ty'].get('k') == 'ref' else clos
    for c in classes:
        lo, hi = min(c), max(c)
        if hi < 0x80 or (0xC2 <= lo and hi <= 0xF4):
            exp = 1
        elif 0x80 <= lo and hi <= 0xBF:
            exp = 0
        else:
            continue
        item = ('ref', ('const', ('ref', ('const', ('int', c, None)))))
        outs = set()
        for w, rv in sub.run(body, [env, item], None, {}):
            if rv[0] == 'pred':
                outs |= {0, 1}
            elif rv[0] == 'int' and rv[2] is None:
                outs |= set(rv[1])
            else:
                outs |= {0, 1}
        good = outs == {exp}
        res.oblige("D|%s|class %s" % (f.npath, fsm.cls_name(c)), good, violation=None if good else dict(
            rule='C17.counting', key="C17|counting|%s|%s" % (f.npath, fsm.cls_name(c)),
            msg="%s: a byte in [%s] (%s of a scalar) is counted %s, expected %s" % (
                f.npath, fsm.cls_name(c), 'the first byte' if exp else 'a continuation byte',
                sorted(outs), 'once' if exp else 'not at all')))
    res.samples.append("%s: filter/count pipeline judged per byte class" % f.npath)
    return True


def stateful_filter(res, lib, f, clos, body, classes):
    """`bytes.iter().filter(|&&b| accum.push_byte(b).is_some()).count()`: the predicate carries the scalar decoder as state.
    It is run, with the decoder inlined, over every well-formed byte-class sequence of Unicode Table 3-7 starting from a
    fresh decoder and from the state each such sequence leaves behind: it must answer `false` on every byte but the last of
    a scalar and `true` on the last (so `count()` is the number of scalars), and a completed scalar must leave a state from
    which the next scalar is judged the same way.  -> True if the closure has this shape (verdicts are recorded)."""
    from . import C02
    caps = clos[2]
    # exactly one captured reference, to a Utf8Accum
    up = body.body.get('upvars') or []
    rule = C02.InlineLocal({'utf8::Utf8Accum'})
    I0 = Interp([lib], rule)
    try:
        init = C02.initial_state(I0, lib)
    except (KeyError, Inconclusive):
        return False
    norm = C02.make_normalise(I0)
    cell = (-1, 0)
    envv = ('closure', clos[1], tuple(('ref', (cell[0], cell[1], ())) for _ in caps))
    if len(caps) != 1:
        return False
    by_ref_env = body.body['locals'][1]['ty'].get('k') == 'ref'

    def feed(state, c):
        """-> set of (answer in {0,1}, new state)"""
        I = Interp([lib], rule)
        store = {cell: state}
        env = envv
        if by_ref_env:
            store[(-1, 1)] = envv
            env = ('ref', (-1, 1, ()))
        item = ('ref', ('const', ('ref', ('const', ('int', c, None)))))
        out = set()
        for w, rv in I.run(body, [env, item], None, store):
            ns = norm(I, w.store[cell])
            if rv[0] == 'int' and rv[2] is None and len(rv[1]) == 1:
                out.add((next(iter(rv[1])), ns))
            else:
                out.add((None, ns))
        return out
    seqs = spec.wellformed_class_sequences(classes)
    starts = [norm(I0, init)]
    seen = set(starts)
    nchk = 0
    bad = None
    while starts and bad is None:
        st0 = starts.pop()
        for seq in seqs:
            states = {st0}
            for k, c in enumerate(seq):
                want = 1 if k == len(seq) - 1 else 0
                nxt = set()
                for st in states:
                    for ans, ns in feed(st, c):
                        nchk += 1
                        if ans != want and bad is None:
                            bad = (seq, k, ans, want)
                        nxt.add(ns)
                states = nxt
            for ns in states:
                if ns not in seen and len(seen) < 40:
                    seen.add(ns)
                    starts.append(ns)
    good = bad is None and nchk > 0
    msg = ''
    if bad:
        seq, k, ans, want = bad
        msg = "%s: in the well-formed sequence %s the %s byte is counted %s, expected %s" % (
            f.npath, " ".join("[%s]" % fsm.cls_name(c) for c in seq), ['first', 'second', 'third', 'fourth'][k],
            ans if ans is not None else 'unknown', want)
    res.oblige("D|%s|stateful-filter|%d" % (f.npath, nchk), good, sample="%s: filter(decoder-stateful predicate).count(): %d steps from %d decoder states"
               % (f.npath, nchk, len(seen)), violation=None if good else dict(
                   rule='C17.counting', key="C17|counting|%s|stateful" % f.npath, msg=msg or "%s: predicate could not be evaluated" % f.npath))
    return True


def returned_vars(exits, names):
    """named counters whose value is what the helper returns at every exit observed exactly (at least one of them > 0)"""
    cands = set(names)
    seen_pos = False
    for w, rv in exits:
        r = int_singleton(rv) if rv and rv[0] == 'int' else None
        st = w.st[0] if isinstance(w.st, tuple) and w.st and w.st[0] is not None else None
        if r is None or st is None:
            continue
        d = dict(st)
        if int_singleton(d.get('#n', ('top',))) is None:
            continue
        seen_pos = seen_pos or r > 0
        cands = {c for c in cands if c in d and int_singleton(d[c]) == r}
    return cands if seen_pos else set()


def check_index_tie(res, lib, f, np_):
    """`char_byte_index(text, k)` for k = 0..3, every sequence of decoder answers: `Some(p)` is returned exactly when k scalars
    have been completed, the last byte consumed completed one (or none was consumed), and p is the number of bytes consumed;
    the loop never consumes a byte from that situation on; `None` is returned only when the text is exhausted with at most
    k scalars completed."""
    from .. import absint
    bad = None
    nex = 0
    for k, empty in [(k_, e_) for k_ in range(4) for e_ in (False, True)]:
        rule = StepRule(f)
        rule.text_empty = empty
        I = Interp([lib], rule)
        args = []
        for i in range(1, f.body['arg_count'] + 1):
            ty = f.body['locals'][i]['ty']
            args.append(('sym', f.body['locals'][i]['name']) if ty.get('k') == 'ref' else const_int(k))
        for w, rv in I.run(f, args, (None, ()), {}):
            st, evs = w.st if isinstance(w.st, tuple) and len(w.st) == 2 else (None, ())
            d = dict(st) if st is not None else {'#n': const_int(0), '#s': const_int(0), '#l': const_int(1)}
            n0, s0, l0 = (int_singleton(d.get(x, ('top',))) for x in ('#n', '#s', '#l'))
            if None in (n0, s0, l0):
                continue            # beyond the exact prefix of the exploration
            pushes = [e for e in evs if e[0] == 'push']
            at_end = any(e[0] == 'end' for e in evs) or (empty and st is None)
            consumed = n0 + (1 if pushes else 0)
            somes = s0 + sum(1 for e in pushes if e[3] == 'Some')
            last = (pushes[-1][3] == 'Some') if pushes else l0 == 1
            if consumed + 1 >= absint.WIDEN_AT:
                continue            # counters of the code itself may already be widened here
            nex += 1
            if rv[0] == 'adt' and rv[1] == OPTION and rv[2] == 1:
                r = int_singleton(rv[3][0]) if rv[3][0][0] == 'int' else None
                if not (r == consumed and somes == k and last) and bad is None:
                    bad = "for character index %d it returns Some(%s) after %d bytes with %d completed scalars%s" % (
                        k, r, consumed, somes, '' if last else ', the last byte being inside a character')
            elif rv[0] == 'adt' and rv[1] == OPTION and rv[2] == 0:
                if not (at_end and somes <= k) and bad is None:
                    bad = "for character index %d it returns None after %d bytes with %d completed scalars%s" % (
                        k, consumed, somes, '' if at_end else ' although bytes remain')
            elif bad is None:
                bad = "for character index %d the result %s is not an Option of a byte count" % (k, rv[:2])
        for prev, evs, cur in rule.steps:
            pd = dict(prev)
            if int_singleton(pd.get('#s', ('top',))) == k and int_singleton(pd.get('#l', ('top',))) == 1 and bad is None:
                bad = "for character index %d it consumes another byte after %s bytes although %d scalars are complete" % (
                    k, int_singleton(pd.get('#n', ('top',))), k)
    good = bad is None and nex >= 8
    res.oblige("D|%s|result-tie|%d" % (np_, nex), good, sample="%s: result tied to the decoder's answers at %d exits (k = 0..3)" % (np_, nex),
               violation=None if good else dict(rule='C17.counting', key="C17|counting|%s|tie" % np_,
                                                msg="%s: %s" % (np_, bad or "only %d exits observed" % nex)))


def check_snap_by_class(res, lib, f, rule, classes, exits):
    """`common_prefix_len` without the scalar decoder: the extracted step relation (state, byte class) -> state is run from
    the initial state over every pair of well-formed byte-class sequences of Unicode Table 3-7; the returned variable must
    equal the number of bytes consumed after the last byte of each scalar and keep the previous boundary on every other
    byte (a prefix may only end between two scalars)"""
    trans = {}
    names = set()
    for prev, evs, cur in rule.steps:
        cl = [e[1] for e in evs if e[0] == 'class']
        if len(cl) == 1:
            trans.setdefault((prev, cl[0]), set()).add(cur)
            names |= {n for n, _ in prev if not n.startswith('#')}
    cands = returned_vars(exits, names)
    seqs = spec.wellformed_class_sequences(classes)
    bad = {}
    nchk = 0
    stuck = None
    for s1 in seqs:
        for s2 in seqs:
            states = set(rule.initial)
            count = 0
            boundary = 0
            for seq in (s1, s2):
                for k, c in enumerate(seq):
                    nxt = set()
                    for st in states:
                        nxt |= trans.get((st, c), set())
                    if not nxt and stuck is None:
                        stuck = (seq, k)
                    states = nxt
                    count += 1
                    if k == len(seq) - 1:
                        boundary = count
                    for st in states:
                        d = dict(st)
                        for pv in cands:
                            nchk += 1
                            v = int_singleton(d.get(pv, ('top',)))
                            if v != boundary and pv not in bad:
                                bad[pv] = (seq, k, v, boundary, count)
    goodv = sorted(c for c in cands if c not in bad)
    good = bool(goodv) and stuck is None and nchk > 0
    msg = ''
    if not good:
        if not cands:
            msg = "%s: no counter of the loop is what the function returns" % f.npath
        elif stuck is not None and not bad:
            msg = "%s: the loop's step relation has no successor on [%s] (byte %d of a well-formed sequence)" % (
                f.npath, fsm.cls_name(stuck[0][stuck[1]]), stuck[1] + 1)
        else:
            pv = sorted(bad)[0]
            seq, k, v, b, cnt = bad[pv]
            msg = ("%s: after the %s byte of the well-formed sequence %s (%d bytes compared) the returned prefix length `%s` is %s, "
                   "but the last scalar boundary is at %d: the prefix can end inside a character" % (
                       f.npath, ['first', 'second', 'third', 'fourth'][k], " ".join("[%s]" % fsm.cls_name(c) for c in seq),
                       cnt, pv, v, b))
    res.oblige("D|%s|snap-by-class|%d" % (f.npath, nchk), good,
               sample="%s: returned prefix length %s sits on a scalar boundary after every byte of %d sequence pairs" % (
                   f.npath, goodv, len(seqs) ** 2),
               violation=None if good else dict(rule='C17.counting', key="C17|counting|%s|snap" % f.npath, msg=msg))


def check_counting_by_class(res, lib, f, sp):
    closures = [g for g in lib.lib_fns() if g.kind == 'Closure' and g.path.startswith(f.path + '::')]
    classes = fsm.partition_at(fsm.int_cuts(fsm.with_callees(lib, [f] + closures)) | spec.boundaries())
    rule = ClassStepRule(f, classes)
    I = Interp([lib], rule)
    args = []
    for i in range(1, f.body['arg_count'] + 1):
        ty = f.body['locals'][i]['ty']
        args.append(('sym', f.body['locals'][i]['name']) if ty.get('k') == 'ref' else ('int', frozenset(), 0))
    exits = I.run(f, args, (None, ()), {})
    if len(rule.steps) < 4:
        if 'snap' not in sp['roles'] and check_counting_by_filter(res, lib, f, classes):
            return
        raise KeyError("%s: neither a byte loop nor an iterator filter/count pipeline recognised" % f.npath)
    if 'snap' in sp['roles']:
        check_snap_by_class(res, lib, f, rule, classes, exits)
    # per named counter: how it steps on first bytes of scalars (exp 1) and on continuation bytes (exp 0)
    behaviour = {}
    for prev, evs, cur in sorted(rule.steps, key=str):
        cl = [e[1] for e in evs if e[0] == 'class']
        if not cl:
            continue
        c = cl[0]
        lo, hi = min(c), max(c)
        if hi < 0x80 or (0xC2 <= lo and hi <= 0xF4):
            exp = 1          # first byte of a scalar
        elif 0x80 <= lo and hi <= 0xBF:
            exp = 0          # continuation byte
        else:
            continue         # bytes that never occur in well-formed text
        pd, cd = dict(prev), dict(cur)
        for cn in pd:
            if cn not in cd or cn.startswith('#'):
                continue
            a, b = int_singleton(pd[cn]), int_singleton(cd[cn])
            if a is None or b is None:
                continue
            behaviour.setdefault(cn, {}).setdefault((exp, b - a), fsm.cls_name(c))
    scalar_counters = [cn for cn, bs in behaviour.items() if set(bs) == {(1, 1), (0, 0)}]
    if 'some' in sp['roles']:
        good = bool(scalar_counters)
        # report the most counter-like variable: the one with the fewest deviating steps
        worst = None
        if not good and behaviour:
            cn = min(behaviour, key=lambda k: len(set(behaviour[k]) - {(1, 1), (0, 0)}))
            dev = sorted(set(behaviour[cn]) - {(1, 1), (0, 0)})
            exp_, d_ = dev[0] if dev else (1, 0)
            worst = (cn, behaviour[cn].get((exp_, d_), '?'), exp_, d_)
        res.oblige("D|%s|scalar-counter" % f.npath, good, sample="%s: scalar counter %s" % (f.npath, scalar_counters),
                   violation=None if good else dict(
                       rule='C17.counting', key="C17|counting|%s|%s" % (f.npath, worst[1] if worst else 'none'),
                       msg=("%s: a byte in [%s] (%s of a scalar) is counted %s, expected %s" % (
                           f.npath, worst[1], 'the first byte' if worst[2] else 'a continuation byte', [worst[3]], 'once' if worst[2] else 'not at all'))
                       if worst else "%s: no variable of the loop counts scalars" % f.npath))
    if sp.get('tie') == 'count':
        names = {n for st in rule.steps for n, _ in st[0] if not n.startswith('#')}
        cands = returned_vars(exits, names)
        good = bool(set(cands) & set(scalar_counters))
        res.oblige("D|%s|result-tie" % f.npath, good, sample="%s: returns its scalar counter" % f.npath,
                   violation=None if good else dict(rule='C17.counting', key="C17|counting|%s|tie" % f.npath,
                                                    msg="%s: what it returns (%s) is not the counter that steps once per scalar (%s)" % (
                                                        f.npath, sorted(cands), scalar_counters)))
    elif sp.get('tie') == 'index':
        raise KeyError("%s: without the scalar decoder the returned index cannot be tied to scalar boundaries" % f.npath)
    res.samples.append("%s: judged per byte class (%d steps)" % (f.npath, len(rule.steps)))


def check_counting(res, lib):
    # roles a helper's loop must contain (found by behaviour, not by name): a `some` counter steps by one exactly when the
    # accumulator reports a completed scalar, an `always` counter steps by one on every byte
    spec_ = {
        'utils::char_count': dict(over='iter(%s)', byte='b', roles=('some',), tie='count'),
        'utils::char_byte_index': dict(over='iter(%s)', byte='b', roles=('some', 'always'), tie='index'),
        'utils::common_prefix_len': dict(over='zip(iter(%s),iter(%s))', byte='b1', roles=('always', 'snap')),
    }
    for np_, sp in spec_.items():
        f = lib.fn(np_)
        rule = StepRule(f)
        I = Interp([lib], rule)
        args = []
        for i in range(1, f.body['arg_count'] + 1):
            ty = f.body['locals'][i]['ty']
            nm = f.body['locals'][i]['name']
            args.append(('sym', nm) if ty.get('k') == 'ref' else ('int', frozenset(), 0))
        exits = I.run(f, args, (None, ()), {})
        if not any(e[0] == 'push' for st in rule.steps for e in st[1]):
            # the helper does not use the scalar decoder: judge it by what it does per byte class of well-formed text
            check_counting_by_class(res, lib, f, sp)
            continue
        if len(rule.steps) < 2:
            raise KeyError("%s: loop not recognised (%d steps)" % (np_, len(rule.steps)))
        params = [a[1] for a in args if a[0] == 'sym']
        want_over = sp['over'] % tuple(params[:sp['over'].count('%s')])
        behaviour = {}      # named int local -> set of observed (outcome, delta)
        snap = {}           # named int local -> first deviation from "takes the byte count on Some, keeps its value on None"
        snapped = set()
        for prev, evs, cur in sorted(rule.steps, key=str):
            over = [e for e in evs if e[0] == 'over']
            pushes = [e for e in evs if e[0] == 'push']
            good = len(over) == 1 and over[0][1] == want_over
            why = ''
            if not good:
                why = "iterates over %s instead of %s" % (over, want_over)
            elif len(pushes) > 1 or (pushes and (pushes[0][1] != 'fresh-accum' or pushes[0][2] != sp['byte'])):
                good = False
                why = "does not feed exactly the current byte to the fresh accumulator once (%s)" % (pushes,)
            elif pushes:
                outcome = pushes[0][3]
                pd, cd = dict(prev), dict(cur)
                n_after = int_singleton(cd.get('#n', ('top',)))
                for c in pd:
                    if c not in cd or c.startswith('#'):
                        continue
                    a, b = int_singleton(pd[c]), int_singleton(cd[c])
                    if a is None or b is None:
                        continue      # widened values: the relation is observed on the exact prefix 0..WIDEN_AT
                    behaviour.setdefault(c, set()).add((outcome, b - a))
                    if n_after is not None:
                        if outcome == 'Some':
                            snapped.add(c)
                            if b != n_after:
                                snap.setdefault(c, "is %d after byte %d completed a scalar" % (b, n_after))
                        elif b != a:
                            snap.setdefault(c, "moves from %d to %d on byte %d, which does not complete a scalar" % (a, b, n_after))
            res.oblige("D|%s|%s|%s" % (np_, evs, cur), good, violation=None if good else dict(
                rule='C17.counting', key="C17|counting|%s" % np_, msg="%s: %s" % (np_, why)))
        found = {'some': [c for c, bs in behaviour.items() if bs == {('Some', 1), ('None', 0)}],
                 'always': [c for c, bs in behaviour.items() if bs == {('Some', 1), ('None', 1)}]}
        if 'snap' in sp['roles']:
            names = {n for st in rule.steps for n, _ in st[0] if not n.startswith('#')}
            cands = returned_vars(exits, names)
            goodv = sorted(c for c in cands if c in snapped and c not in snap)
            good = bool(goodv)
            why = ("no counter of the loop is what the function returns" if not cands else
                   "; ".join("the returned prefix length `%s` %s" % (c, snap.get(c, 'is never set')) for c in sorted(cands)))
            res.oblige("D|%s|role snap" % np_, good, sample="%s: returned prefix length %s is the byte count at the last completed scalar" % (np_, goodv),
                       violation=None if good else dict(rule='C17.counting', key="C17|counting|%s|snap" % np_,
                                                        msg="%s: %s: the prefix can end inside a character" % (np_, why)))
        for role in sp['roles']:
            if role == 'snap':
                continue
            good = bool(found[role]) or (role == 'always' and rule.enumerated)     # `enumerate()` is a byte counter
            res.oblige("D|%s|role %s" % (np_, role), good, sample="%s: `%s` counter is %s" % (np_, role, found[role]),
                       violation=None if good else dict(
                           rule='C17.counting', key="C17|counting|%s|role-%s" % (np_, role),
                           msg="%s: no variable of the loop %s (observed per variable: %s)" % (
                               np_, "steps by one exactly when the accumulator reports a completed scalar" if role == 'some'
                               else "steps by one on every byte", {c: sorted(bs) for c, bs in behaviour.items()})))
        if sp.get('tie') == 'count':
            names = {n for st in rule.steps for n, _ in st[0] if not n.startswith('#')}
            cands = returned_vars(exits, names)
            good = bool(set(cands) & set(found['some']))
            res.oblige("D|%s|result-tie" % np_, good, sample="%s: returns its scalar counter %s" % (np_, sorted(set(cands) & set(found['some']))),
                       violation=None if good else dict(rule='C17.counting', key="C17|counting|%s|tie" % np_,
                                                        msg="%s: what it returns (%s) is not the counter that steps once per completed scalar (%s)" % (
                                                            np_, sorted(cands), found['some'])))
        elif sp.get('tie') == 'index':
            check_index_tie(res, lib, f, np_)
        res.samples.append("%s: %d loop steps checked" % (np_, len(rule.steps)))


def run(ctx, res):
    from .. import absint
    old = absint.WIDEN_AT
    absint.WIDEN_AT = 16      # encoded lengths 1..4 and small counters stay exact
    try:
        run_(ctx, res)
    finally:
        absint.WIDEN_AT = old


def run_(ctx, res):
    res.explanation = __doc__
    res.rule_text = ("A: per (decoder state, well-formed class sequence); B: per encoded length (and text-after variant); "
                     "C: per tokenizer state; D: per extracted loop step")
    lib = lib_crate(ctx.crates('default'))
    C02.check_decoder(res, lib, 'C17.A')
    check_pop(res, lib)
    check_encode(res, lib)
    check_transparency(res, lib)
    check_counting(res, lib)
    res.exhaustive = True
    res.trusted = ["rustc MIR", "ecli-mirdump", "analysis/absint.py + bitdom.py + fsm.py", "specs/utf8.py", "the UTF-8 bit layout in rules/C17.py FORMS"]
