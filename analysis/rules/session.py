"""Event words of `Cli::process_byte` per key, shared by C01, C05, C10, C12.

One abstract interpretation of `process_byte` (every path, every sink/handler/callback outcome) with the
byte decoder summarised by its declared result (no key | each ControlInput variant | Char) and the core
types' methods as events carrying symbolic results, so that *which value flows where* can be checked:

  KEY:<k>                    outcome of InputGenerator's byte-accepting method
  E.<m>[:outcome]            every method of editor::Editor (text -> atom `line`, text_mut -> atom `line_mut`)
  H.<m>[:outcome]            every method of history::History (argument recorded for push)
  T.new(<arg>)               token::Tokens::new  -> atom tokens(<arg>)
  from_tokens(<arg>):None|Some    command::RawCommand::from_tokens -> Some(cmd(<arg>))
  from_command:None|All|Command   help::HelpRequest::from_command
  DISPATCH(<arg>):<outcome>  CommandProcessor::process on the handler parameter
  CB:<name>:<outcome>        Help / Autocomplete callbacks on the command-set parameter, FnOnce closure
  W:<class>                  sink write (CRLF | const:<bytes> | prompt | var), F sink flush (Ok outcomes only shown)
  OUT.<m>                    the library's own output through a Writer
"""
from .. import facts as F
from ..absint import (Interp, TOP, UNIT, TRUE, FALSE, U8_ANY, OPTION, none, some, const_int)
from .common import (EventRule, cli_entry_store, ret_is_err, ret_is_ok, lib_crate, SINKERR, outcomes_for_type,
                     strip_crate)
from . import C14 as base


def methods_of(lib, adt):
    return [f for f in lib.lib_fns() if f.kind == 'AssocFn' and f.impl_trait is None and base.self_adt(f) == adt]


def atom_name(v):
    if v[0] == 'sym':
        return v[1]
    if v[0] == 'ref' and v[1][0] == 'const':
        return atom_name(v[1][1])
    if v[0] == 'cstr':
        return 'const:%r' % v[1]
    if v[0] == 'adt' and v[1] == OPTION and v[2] == 1:
        return atom_name(v[3][0])
    return '?'


class Session(EventRule):
    def __init__(self, crates, lib):
        self.lib = lib
        self.local_events = {}
        self.accept = base.find_accept(lib)
        self.local_events[self.accept.npath] = 'KEY'
        for f in methods_of(lib, 'editor::Editor'):
            if f.name != 'new':
                self.local_events[f.npath] = 'E.' + f.name
        self.has_history = bool(methods_of(lib, 'history::History'))
        for f in methods_of(lib, 'history::History'):
            if f.name != 'new':
                self.local_events[f.npath] = 'H.' + f.name
        def one(adt, pred, what):
            c = [f for f in methods_of(lib, adt) if pred(f)]
            if len(c) != 1:
                raise KeyError("%s: %d candidates" % (what, len(c)))
            return c[0]
        # Tokens constructor from mutable text: fn(&mut str) -> Tokens
        self.tok_new = one('token::Tokens', lambda f: f.body['arg_count'] == 1 and
                           f.body['locals'][1]['ty'].get('k') == 'ref' and f.body['locals'][1]['ty'].get('mut') and
                           f.body['locals'][1]['ty']['to'].get('k') == 'str', 'Tokens constructor from &mut str')
        self.local_events[self.tok_new.npath] = 'T.new'
        # RawCommand from tokens: fn(&Tokens) -> Option<RawCommand>
        self.from_tokens = one('command::RawCommand', lambda f: base.ret_ty(f).get('k') == 'adt' and
                               F.norm_path(base.ret_ty(f)['path']) == OPTION and f.body['arg_count'] == 1 and
                               'token::Tokens' in f.body['locals'][1]['ty'].get('s', ''), 'RawCommand::from_tokens')
        self.local_events[self.from_tokens.npath] = 'from_tokens'
        # the facility is on iff the crate was compiled with the feature (the help module itself is always compiled)
        self.features = {str(c).split('=', 1)[1] for c in lib.cfgs if str(c).startswith('feature=')}
        self.help_on = 'help' in self.features
        hr = [f for f in methods_of(lib, 'help::HelpRequest') if 'HelpRequest' in base.ret_ty(f).get('s', '')
              and F.norm_path(base.ret_ty(f).get('path')) == OPTION]
        self.from_command = hr[0] if (len(hr) == 1 and self.help_on) else None
        if self.help_on and self.from_command is None:
            raise KeyError("HelpRequest::from_command not found although the help feature is on")
        if self.from_command is not None:
            self.local_events[self.from_command.npath] = 'from_command'
        for kind, f in base.public_api(lib):
            if kind == 'writer':
                self.local_events[f.npath] = 'OUT.' + f.name
        isd = [f for f in lib.lib_fns() if base.self_adt(f) == 'writer::Writer' and f.name == 'is_dirty']
        for f in isd:
            self.local_events[f.npath] = 'IS_DIRTY'
        super().__init__(crates)

    def classify(self, I, w, ci, args):
        p = ci.nresolved or ci.npath or ''
        if ci.npath in ('core::str::<impl str>::is_empty', 'core::slice::<impl [T]>::is_empty') and args \
                and ((args[0][0] == 'sym' and args[0][1] in TEXT_ATOMS) or args[0] == TOP):
            return 'EMPTY?'           # "is this text empty?" decides a path: keep the question in the word
        if p.endswith('::next') and 'core::iter::range' in p and args and args[0][0] == 'ref':
            r = I.read(w, args[0][1])
            if r[0] == 'adt' and r[1].endswith('range::Range') and all(x[0] in ('sym', 'symoff') for x in r[3]):
                return 'COUNTED'
        return super().classify(I, w, ci, args)

    def on_call(self, I, w, ci, args):
        ev = self.classify(I, w, ci, args)
        if ev == 'COUNTED':
            # `for _ in a..b` over symbolic editor quantities: the body is analysed once and wrapped in a REPEAT label
            r = I.read(w, args[0][1])
            key, trace = w.st
            opened = sum(1 for l in trace if l.startswith('REPEAT(')) - sum(1 for l in trace if l == '}')
            self.sites.setdefault(ev, set()).add(ci.site())
            if opened == 0:
                lab = 'REPEAT(%s..%s){' % (atom_name(r[3][0]), atom_name(r[3][1]))
                return [(w.with_st((key, trace + (lab,))), some(TOP))]
            return [(w.with_st((key, trace + ('}',))), none())]
        return super().on_call(I, w, ci, args)

    def outcomes(self, I, w, ci, args, ev):
        if ev == 'EMPTY?':
            return [('T', TRUE), ('F', FALSE)]
        if ev == 'KEY':
            out = [('none', none())]
            inp = I.adts['input::Input']
            ctl = I.adts['input::ControlInput']
            for vi, v in enumerate(inp['variants']):
                if v['name'] == 'Control':
                    for ci_, c in enumerate(ctl['variants']):
                        out.append((c['name'], some(('adt', 'input::Input', vi, (('adt', 'input::ControlInput', ci_, ()),)))))
                else:
                    out.append((v['name'], some(('adt', 'input::Input', vi, (('sym', 'typed'),)))))
            return out
        if ev in ('E.cursor', 'E.len'):
            return [('', ('sym', '%s#%d' % (ev[2:], len(w.st[1]))))]
        if ev == 'E.text':
            return [('', ('sym', 'line'))]
        if ev == 'E.text_mut':
            return [('', ('sym', 'line_mut'))]
        if ev == 'E.text_range':
            return [('', ('sym', 'line_range'))]
        if ev == 'T.new':
            return [('', ('sym', 'tokens(%s)' % atom_name(args[0])))]
        if ev == 'from_tokens':
            return [('None', none()), ('Some', some(('sym', 'cmd(%s)' % self._deref_name(I, w, args[0]))))]
        if ev == 'from_command':
            hr = I.adts['help::HelpRequest']
            out = [('None', none())]
            for vi, v in enumerate(hr['variants']):
                out.append((v['name'], some(('adt', 'help::HelpRequest', vi,
                                             tuple(('sym', 'helpcmd') for _ in v['fields'])))))
            return out
        if ev in ('H.next_older', 'H.next_newer'):
            return [('None', none()), ('Some', some(('sym', 'recalled')))]
        if ev == 'E.insert':
            return [('None', none()), ('Some', some(('sym', 'inserted')))]
        return super().outcomes(I, w, ci, args, ev)

    def _deref_name(self, I, w, a):
        if a[0] == 'ref':
            return atom_name(I.read(w, a[1]))
        return atom_name(a)

    def label(self, I, w, ev, outcome, ci, args):
        if ev == 'EMPTY?':
            return 'IF(empty(%s)):%s' % (args[0][1] if args[0][0] == 'sym' else 'var', outcome)
        if ev == 'SINK_WRITE':
            if 'sink' in outcome:
                return 'W!'
            a = args[1] if len(args) > 1 else TOP
            if a[0] == 'cstr':
                return 'W:CRLF' if a[1] == b'\r\n' else 'W:const:%s' % a[1].decode('latin1').encode('unicode_escape').decode()
            if a[0] == 'sym':
                return 'W:' + a[1]
            return 'W:var'
        if ev == 'SINK_FLUSH':
            return 'F' if 'sink' not in outcome else 'F!'
        if ev == 'T.new':
            return 'T.new(%s)' % atom_name(args[0])
        if ev == 'from_tokens':
            return 'from_tokens(%s):%s' % (self._deref_name(I, w, args[0]), outcome)
        if ev == 'DISPATCH':
            return 'DISPATCH(%s):%s' % (atom_name(args[2]) if len(args) > 2 else '?', outcome)
        if ev == 'H.push':
            return 'H.push(%s)' % (atom_name(args[1]) if len(args) > 1 else '?')
        if ev == 'E.insert':
            return 'E.insert(%s):%s' % (atom_name(args[1]) if len(args) > 1 else '?', outcome)
        if ev.startswith('OUT.'):
            a = args[1] if len(args) > 1 else TOP
            return '%s(%s)%s' % (ev, atom_name(a), '!' if 'sink' in outcome else '')
        if ev == 'CB:command_help':
            return 'CB:command_help(%s):%s' % (atom_name(args[1]) if len(args) > 1 else '?', outcome)
        if ev == 'E.text_range' and len(args) > 1:
            r = args[1]
            if r[0] == 'adt' and r[1].endswith('RangeFrom') and r[3][0][0] == 'sym':
                return 'E.text_range(%s..)' % r[3][0][1]
            return 'E.text_range(?)'
        return ev + (':' + outcome if outcome else '')

    def on_symbranch(self, I, w, v, truth):
        key, trace = w.st
        def nm(x):
            if x[0] == 'sym':
                return x[1]
            if x[0] == 'symoff':
                return '%s%+d' % (x[1], x[2])
            if x[0] == 'int' and x[2] is None and len(x[1]) == 1:
                return str(next(iter(x[1])))
            return '?'
        lab = 'IF(%s %s %s):%s' % (nm(v[2]), v[1], nm(v[3]), 'T' if truth else 'F')
        return w.with_st((key, trace + (lab,)))

    def step(self, I, w, ev, outcome, ci, args):
        key, trace = w.st
        if ev == 'KEY':
            return [w.with_st((outcome, ()))]
        lab = self.label(I, w, ev, outcome, ci, args)
        if len(trace) < 60:
            trace = trace + (lab,)
        return [w.with_st((key, trace))]


TEXT_ATOMS = ('line', 'line_range', 'inserted', 'recalled', 'prompt', 'typed')


def shape(word):
    """The word as the rules about *what* is done read it: flushes are C15's business and dropped; a write skipped because
    the text was found empty is the write of that (empty) text."""
    out = []
    for l in word:
        if l == 'F':
            continue
        if l.startswith('IF(empty(') and l.endswith('):F'):
            continue
        if l.startswith('IF(empty(') and l.endswith('):T'):
            out.append('W:' + l[len('IF(empty('):-len(')):T')])
            continue
        out.append(l)
    return tuple(out)


def shaped(words):
    """{key: set((word, status))} or set((word, status)) with every word normalised by `shape`"""
    if isinstance(words, dict):
        return {k: {(shape(w), st) for w, st in ws} for k, ws in words.items()}
    return {(shape(w), st) for w, st in words}


def process_byte_words(lib):
    """-> (rule, {key: set((trace, 'Ok'|'Err'))})"""
    rule = Session([lib], lib)
    I = Interp([lib], rule)
    store, self_ref = cli_entry_store(I, prompt=('sym', 'prompt'))
    f = lib.fn('cli::Cli::process_byte')
    exits = I.run(f, base.entry_args(f, self_ref), (None, ()), store)
    words = {}
    for w, rv in exits:
        key, trace = w.st
        words.setdefault(key, set()).add((trace, 'Err' if ret_is_err(rv) else 'Ok'))
    return rule, words, I


def api_words(lib, name):
    rule = Session([lib], lib)
    I = Interp([lib], rule)
    store, self_ref = cli_entry_store(I, prompt=('sym', 'prompt'))
    f = lib.fn(name)
    args = base.entry_args(f, self_ref)
    for i in range(1, f.body['arg_count'] + 1):
        ty = f.body['locals'][i]['ty']
        if ty.get('k') == 'ref' and ty['to'].get('k') == 'str':
            args[i - 1] = ('sym', 'prompt')      # Cli::set_prompt(new prompt)
    exits = I.run(f, args, ('-', ()), store)
    out = set()
    for w, rv in exits:
        key, trace = w.st
        out.add((trace, 'Err' if ret_is_err(rv) else 'Ok'))
    return rule, out
