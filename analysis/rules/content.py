"""Buffer-content effects on top of the linear domain E3 (segment algebra).

`ContentE3` extends C03's rule: besides linear facts it records, per abstract path, *where* every sub-slice of a tracked
buffer lies (absolute offset, as a linear form over the path's atoms) and the ordered list of writes into the buffer
(`copy_within`, `utils::copy_nonoverlapping`, indexed stores, `fill`).  At an exit the writes are replayed on a symbolic
buffer made of segments `[lo, hi) -> source` (source = the buffer's old content shifted by a linear amount, a `&str`
parameter, a constant byte, or unknown); where two end points have to be ordered the path facts must entail the order
(Fourier–Motzkin), otherwise the result is `Undecided` (reported, never guessed).  The resulting segment list is the
function's effect on the buffer content for *every* content, every buffer size and every text, and is compared with the
segment list the property statement prescribes.

Markers live in the world's fact set as constraints `m >= 0` over a fresh, never otherwise used atom whose *name*
carries the payload; they do not influence entailment.
"""
import ast
from .. import fm
from ..absint import UNIT, to_lin, int_singleton
from . import C03
from .C03 import L
from .common import strip_crate

ZERO = fm.lin_const(0)


class Undecided(Exception):
    pass


class NeedCase(Exception):
    """two end points cannot be ordered from the path facts: the caller decides both orders separately"""

    def __init__(self, cons):
        Exception.__init__(self, fm.fmt(cons))
        self.cons = cons


def cases(rule, w, body, depth=0):
    """run body(w); whenever it needs an order the facts do not give, run it under both orders (those that are feasible)"""
    try:
        body(w)
    except NeedCase as e:
        if depth >= 8:
            raise Undecided("more than 8 nested case distinctions (last: %s)" % e)
        for cons in (e.cons, fm.negate(e.cons)):
            if rule.feasible(w, [cons]):
                cases(rule, rule.add(w, cons), body, depth + 1)


def base_of(tag):
    return str(tag).split('!')[0].split('^')[0]


def _mk(kind, payload):
    return fm.lin({'$%s|%r' % (kind, payload): 1})


def markers(w, kind):
    out = []
    pre = '$%s|' % kind
    for c in w.st:
        for a in fm.atoms_of(c):
            if a.startswith(pre):
                out.append(ast.literal_eval(a[len(pre):]))
    return out


def lin_of(v):
    """abstract value -> fm lin or None"""
    return L(v) if v is not None else None


class ContentE3(C03.E3):
    def __init__(self, lib, sites=None, assumed=None):
        C03.E3.__init__(self, lib, sites if sites is not None else {}, assumed or {})
        self.track_none = False      # also mark the not-found outcome of searches (needed by C10.H7 only)

    # ---------------- slice geography ----------------
    def where(self, w, v):
        """(base, offset lin) of a slice-like abstract value in this world, or None"""
        if v is None or v[0] not in ('slc', 'iterv'):
            return None
        key = repr(v)
        found = set()
        for m in markers(w, 'off'):
            if m[0] == key:
                found.add((m[1], m[2]))
        if len(found) == 1:
            return list(found)[0]
        return None

    def put(self, w, v, base, off):
        if v is None or v[0] not in ('slc', 'iterv') or off is None:
            return w
        return self.add(w, _mk('off', (repr(v), base, off)))

    def fx(self, w, eff):
        seq = len(markers(w, 'fx'))
        return self.add(w, _mk('fx', (seq,) + tuple(eff)))

    # ---------------- hooks ----------------
    def on_call(self, I, w, ci, args):
        p = ci.npath or ''
        rp = ci.nresolved or ''
        name = ci.name
        tr = strip_crate(ci.trait)
        if p == 'core::slice::<impl [T]>::fill' and len(args) == 2:
            loc = self.where(w, args[0])
            ln = lin_of(self.slc_len(I, w, args[0]))
            b = int_singleton(args[1]) if args[1][0] == 'int' else None
            if loc is not None and ln is not None:
                return [(self.fx(w, ('fill', loc[0], loc[1], fm.add(loc[1], ln), b)), UNIT)]
            if args[0][0] == 'slc':
                return [(self.fx(w, ('unk', base_of(args[0][1]))), UNIT)]
            return None
        out = C03.E3.on_call(self, I, w, ci, args)
        if out is None:
            return None
        if tr == 'buffer::Buffer' and name in ('as_slice', 'as_slice_mut'):
            return [(self.put(w2, v, v[1], ZERO) if v[0] == 'slc' else w2, v) for w2, v in out]
        if name in ('index', 'index_mut', 'get_unchecked', 'get_unchecked_mut') and len(args) == 2 and args[1][0] == 'adt':
            loc = self.where(w, args[0])
            if loc is None:
                return out
            nm = args[1][1].rsplit('::', 1)[-1]
            if nm in ('Range', 'RangeFrom'):
                st = lin_of(args[1][3][0])
            elif nm in ('RangeTo', 'RangeFull'):
                st = ZERO
            else:
                st = None
            if st is None:
                return out
            return [(self.put(w2, v, loc[0], fm.add(loc[1], st)), v) for w2, v in out]
        if name in ('get', 'get_mut') and len(args) == 2 and args[1][0] == 'adt' and args[0][0] == 'slc':
            # the checked forms: Some(sub-slice) lies where the unchecked form would
            loc = self.where(w, args[0])
            nm = args[1][1].rsplit('::', 1)[-1]
            st = lin_of(args[1][3][0]) if nm in ('Range', 'RangeFrom') else (ZERO if nm in ('RangeTo', 'RangeFull') else None)
            if loc is None or st is None:
                return out
            if nm == 'RangeFrom' and len(st[0]) == 1 and st[1] == 0 and st[0][0][1] == 1:
                # `text.get(p..)` with p the index of the first byte of this very slice that is not a given ASCII byte: p < len
                # and every byte before p is ASCII, so p is a character boundary inside the text - `None` cannot happen
                ln = lin_of(self.slc_len(I, w, args[0]))
                for (at, b_, off, sl, byte, rev) in markers(w, 'pos') + [m + (False,) for m in markers(w, 'cnt')]:
                    if at == st[0][0][0] and b_ == loc[0] and off == loc[1] and sl == ln and rev is False \
                            and isinstance(byte, tuple) and byte[0] == 'ne' and byte[1] < 0x80:
                        out = [(w2, v) for w2, v in out if not (v[0] == 'adt' and v[2] == 0)]
            return [(self.put(w2, v[3][0], loc[0], fm.add(loc[1], st)) if (v[0] == 'adt' and v[2] == 1 and v[3] and v[3][0][0] == 'slc') else w2, v)
                    for w2, v in out]
        if rp.endswith('utils::split_at_mut') or p.endswith('utils::split_at_mut'):
            loc = self.where(w, args[0])
            mid = lin_of(args[1])
            res = []
            for w2, v in out:
                if loc is not None and mid is not None and v[0] == 'tuple':
                    w2 = self.put(w2, v[1][0], loc[0], loc[1])
                    w2 = self.put(w2, v[1][1], loc[0], fm.add(loc[1], mid))
                res.append((w2, v))
            return res
        if name == 'take_while' and len(args) == 2 and args[0][0] == 'iterv' and tr == 'core::iter::traits::iterator::Iterator':
            pred = C03.searched_pred(I, args[1])
            loc = self.where(w, args[0])
            if pred and loc is not None:
                # the adaptor stops at the first byte that fails the predicate
                stop = ('ne', pred[0]) if pred[1] == 'eq' else pred[0]
                return [(self.add(w2, _mk('tw', (repr(v), stop))), v) for w2, v in out]
            return out
        if name == 'count' and args and args[0][0] == 'iterv' and tr == 'core::iter::traits::iterator::Iterator':
            it = args[0]
            loc = self.where(w, it)
            tws = [m for m in markers(w, 'tw') if m[0] == repr(it)]
            res = []
            for w2, v in out:
                if loc is not None and len(tws) == 1 and v[0] == 'sym' and it[1] and not any(m[0] == repr(it) for m in markers(w, 'rev')):
                    # `take_while(b == c).count()` from the start of a located slice: the index of the first byte that is not c,
                    # or the length when there is none ('cnt' marker: like 'pos', but the index may equal the length)
                    w2 = self.add(w2, _mk('cnt', (v[1], loc[0], loc[1], lin_of(it[1][0]), tws[0][1])))
                res.append((w2, v))
            return res
        if p in ('core::slice::<impl [T]>::iter', 'core::str::<impl str>::bytes') or (name == 'into_iter' and args and args[0][0] == 'slc'):
            loc = self.where(w, args[0])
            if loc is None:
                return out
            return [(self.put(w2, v, loc[0], loc[1]), v) for w2, v in out]
        if name == 'rev' and args and args[0][0] == 'iterv':
            return [(self.add(w2, _mk('rev', (repr(v),))), v) for w2, v in out]
        if name in ('position', 'rposition') and args:
            it = args[0]
            if it[0] == 'ref':
                it = I.read(w, it[1])
            loc = self.where(w, it)
            # search mode: False = first match, index from the start; True = `rev().position()`: last match, distance from
            # the end; 'rpos' = `rposition()`: last match, index from the start
            rev = any(m[0] == repr(it) for m in markers(w, 'rev'))
            if name == 'rposition':
                rev = 'first-from-start' if rev else 'rpos'
                if rev == 'first-from-start':
                    rev = False
            pred = C03.searched_pred(I, args[1]) if len(args) > 1 else None
            # the found position holds b ('eq' predicate) or is the first that does not hold b (('ne', b))
            byte = None if not pred else (pred[0] if pred[1] == 'eq' else ('ne', pred[0]))
            res = []
            for w2, v in out:
                if v[0] == 'adt' and v[2] == 1 and v[3][0][0] == 'sym' and loc is not None and it[0] == 'iterv' and it[1]:
                    ln = lin_of(it[1][0])
                    w2 = self.add(w2, _mk('pos', (v[3][0][1], loc[0], loc[1], ln, byte, rev)))
                elif self.track_none and v[0] == 'adt' and v[2] == 0 and loc is not None and it[0] == 'iterv' and it[1]:
                    w2 = self.add(w2, _mk('posnone', (loc[0], loc[1], lin_of(it[1][0]), byte, rev)))
                res.append((w2, v))
            return res
        if p == 'core::slice::<impl [T]>::copy_within' and len(args) == 3:
            loc = self.where(w, args[0])
            rng, dest = args[1], args[2]
            eff = None
            if loc is not None and rng[0] == 'adt' and rng[1].endswith('range::Range'):
                s_, e, d = lin_of(rng[3][0]), lin_of(rng[3][1]), lin_of(dest)
                if None not in (s_, e, d):
                    eff = ('cw', loc[0], fm.add(loc[1], s_), fm.add(loc[1], e), fm.add(loc[1], d))
            if eff is None and args[0][0] == 'slc':
                eff = ('unk', base_of(args[0][1]))
            if eff is None:
                return out
            return [(self.fx(w2, eff), v) for w2, v in out]
        if rp.endswith('utils::copy_nonoverlapping') or p.endswith('utils::copy_nonoverlapping'):
            dloc = self.where(w, args[1])
            n = lin_of(args[2])
            src = args[0]
            sloc = self.where(w, src)
            if sloc is not None:
                sd = ('buf', sloc[0], sloc[1])
            elif src[0] == 'slc':
                sd = ('text', base_of(src[1]), ZERO)
            elif src[0] == 'cstr':
                sd = ('const', bytes(src[1]), ZERO)
            else:
                sd = ('unk',)
            if dloc is not None and n is not None:
                eff = ('cp', dloc[0], dloc[1], fm.add(dloc[1], n), sd)
            elif args[1][0] == 'slc':
                eff = ('unk', base_of(args[1][1]))
            else:
                return out
            return [(self.fx(w2, eff), v) for w2, v in out]
        if rp.endswith('utils::char_byte_index'):
            loc = self.where(w, args[0])
            ln = lin_of(self.slc_len(I, w, args[0]))
            k = lin_of(args[1])
            seq = len(markers(w, 'cbi'))
            res = []
            for w2, v in out:
                at = v[3][0][1] if (v[0] == 'adt' and v[2] == 1 and v[3][0][0] == 'sym') else None
                res.append((self.add(w2, _mk('cbi', (seq, at, loc[0] if loc else None, loc[1] if loc else None, ln, k))), v))
            return res
        if rp.endswith('utils::char_count'):
            a0 = args[0]
            loc = self.where(w, a0)
            sd = ('buf', loc[0], loc[1]) if loc is not None else (('text', base_of(a0[1])) if a0[0] == 'slc' else ('unk',))
            ln = lin_of(self.slc_len(I, w, a0))
            return [(self.add(w2, _mk('cc', (v[1], sd, ln))) if v[0] == 'sym' else w2, v) for w2, v in out]
        return out

    def havoc_value(self, I, w, ci, target, old):
        """user code that gets `&mut Autocompletion` may have written anywhere in the completion buffer it wraps"""
        w2, nv = C03.E3.havoc_value(self, I, w, ci, target, old)
        if old[0] == 'adt' and old[1] == 'autocomplete::Autocompletion':
            buf = old[3][I.field_index(old[1], 'buffer')]
            loc = self.where(w, buf)
            ln = lin_of(buf[2]) if buf[0] == 'slc' else None
            if loc is not None and ln is not None:
                w2 = self.fx(w2, ('unkrange', loc[0], loc[1], fm.add(loc[1], ln)))
            elif buf[0] == 'slc':
                w2 = self.fx(w2, ('unk', base_of(buf[1])))
        return w2, nv

    def on_store(self, I, w, depth, place, v, stmt):
        w2 = C03.E3.on_store(self, I, w, depth, place, v, stmt)
        eff = None
        idx = [e for e in place['p'] if e['k'] == 'index']
        bv = w.store.get((depth, place['l']))
        for _ in range(3):
            if bv is not None and bv[0] == 'ref':
                bv = I.read(w, bv[1])
        if idx and bv is not None and bv[0] == 'slc':
            loc = self.where(w, bv)
            iv = lin_of(w.store.get((depth, idx[0]['l'])))
            if loc is not None and iv is not None:
                b = int_singleton(v) if v[0] == 'int' else None
                at = fm.add(loc[1], iv)
                eff = ('st', loc[0], at, fm.add(at, fm.lin_const(1)), b)
            else:
                eff = ('unk', base_of(bv[1]))
        if eff is None:
            return w2
        if w2 is None:
            t = I.resolve(w, depth, place)
            w2 = I.write(w, t, v)
        return self.fx(w2, eff)


# ------------------------------------------------------------------------------------------------
# segment algebra

def shift_src(src, k):
    """the source seen from positions moved up by k: new'[i] = new[i - k]"""
    if src[0] in ('old', 'text', 'const', 'buf'):
        return src[:-1] + (fm.add(src[-1], k, -1),)
    return src


class Content(object):
    """segments (lo, hi, src) with src one of ('old', delta) | ('text', name, delta) | ('const', bytes, delta) |
    ('byte', b) | ('unk',): for lo <= i < hi the byte at i is source[i + delta]"""

    def __init__(self, rule, w, cap):
        self.rule, self.w = rule, w
        self.segs = [(ZERO, cap, ('old', ZERO))]

    def le(self, a, b):
        return self.rule.prove(self.w, fm.le(a, b))

    def eq(self, a, b):
        return a == b or (self.le(a, b) and self.le(b, a))

    def split(self, p):
        out = []
        done = False
        for (a, b, src) in self.segs:
            if done or self.le(b, p):
                out.append((a, b, src))
                continue
            if self.le(p, a):
                done = True
                out.append((a, b, src))
                continue
            if not self.le(p, b):
                raise NeedCase(fm.le(p, b))
            if not self.le(a, p):
                raise NeedCase(fm.le(a, p))
            out.append((a, p, src))
            out.append((p, b, src))
            done = True
        self.segs = out

    def read(self, lo, hi):
        self.split(lo)
        self.split(hi)
        return [(a, b, s) for (a, b, s) in self.segs if self.le(lo, a) and self.le(b, hi)]

    def write(self, lo, hi, pieces):
        self.split(lo)
        self.split(hi)
        out = []
        placed = False
        for (a, b, s) in self.segs:
            inside = self.le(lo, a) and self.le(b, hi)
            if inside:
                if not placed:
                    out.extend(pieces)
                    placed = True
                continue
            if not placed and self.le(hi, a):
                out.extend(pieces)
                placed = True
            out.append((a, b, s))
        if not placed:
            out.extend(pieces)
        self.segs = out

    def apply(self, eff):
        k = eff[0]
        if k == 'cw':
            _, _, s, e, d = eff
            sh = fm.add(d, s, -1)
            pieces = [(fm.add(a, sh), fm.add(b, sh), shift_src(src, sh)) for (a, b, src) in self.read(s, e)]
            self.write(d, fm.add(d, fm.add(e, s, -1)), pieces)
        elif k == 'cp':
            _, _, lo, hi, sd = eff
            if sd[0] == 'text':
                src = ('text', sd[1], fm.add(sd[2], lo, -1))
            elif sd[0] == 'const':
                src = ('const', sd[1], fm.add(sd[2], lo, -1))
            elif sd[0] == 'buf':
                # copy from the same tracked buffer (non-overlapping): read the current content there
                sh = fm.add(lo, sd[2], -1)
                pieces = [(fm.add(a, sh), fm.add(b, sh), shift_src(src_, sh))
                          for (a, b, src_) in self.read(sd[2], fm.add(sd[2], fm.add(hi, lo, -1)))]
                self.write(lo, hi, pieces)
                return
            else:
                src = ('unk',)
            self.write(lo, hi, [(lo, hi, src)])
        elif k in ('st', 'fill'):
            _, _, lo, hi, b = eff
            self.write(lo, hi, [(lo, hi, ('byte', b) if b is not None else ('unk',))])
        elif k == 'unkrange':
            _, _, lo, hi = eff
            self.write(lo, hi, [(lo, hi, ('unk',))])
        else:
            raise Undecided("a write into the buffer whose position is not known (%r)" % (eff,))

    def prefix(self, upto):
        self.split(upto)
        return [(a, b, s) for (a, b, s) in self.segs if self.le(b, upto)]

    def normalised(self, segs):
        out = []
        for (a, b, s) in segs:
            if self.eq(a, b):
                continue
            if out:
                pa, pb, ps = out[-1]
                if ps[0] == s[0] and ps[:-1] == s[:-1] and self.eq(pb, a) and (
                        s[0] in ('byte', 'unk') and ps == s or s[0] not in ('byte', 'unk') and self.eq(ps[-1], s[-1])):
                    out[-1] = (pa, b, ps)
                    continue
            out.append((a, b, s))
        return out

    def same(self, mine, expected):
        """pointwise equality of two segment lists covering the same range; -> (ok, why)"""
        A = Content(self.rule, self.w, ZERO)
        A.segs = list(mine)
        B = Content(self.rule, self.w, ZERO)
        B.segs = list(expected)
        for (a, b, s) in list(B.segs):
            A.split(a)
            A.split(b)
        for (a, b, s) in list(A.segs):
            B.split(a)
            B.split(b)
        x, y = A.normalised(A.segs), B.normalised(B.segs)
        if len(x) != len(y):
            return False, "%s  vs. required  %s" % (fmt_segs(x), fmt_segs(y))
        for (a, b, s), (a2, b2, s2) in zip(x, y):
            if not (self.eq(a, a2) and self.eq(b, b2)):
                return False, "%s  vs. required  %s" % (fmt_segs(x), fmt_segs(y))
            if s[0] != s2[0] or s[:-1] != s2[:-1]:
                return False, "%s  vs. required  %s" % (fmt_segs(x), fmt_segs(y))
            if s[0] in ('byte', 'unk'):
                if s != s2 or s[0] == 'unk':
                    return False, "%s  vs. required  %s" % (fmt_segs(x), fmt_segs(y))
            elif not self.eq(s[-1], s2[-1]):
                return False, "%s  vs. required  %s" % (fmt_segs(x), fmt_segs(y))
        return True, ''


def fmt(l):
    s = fm.fmt(l)
    return s[:-5] if s.endswith(' >= 0') else s


def fmt_src(s):
    if s[0] == 'old':
        return "old[i%s]" % ('' if s[1] == ZERO else ' + (' + fmt(s[1]) + ')')
    if s[0] == 'text':
        return "%s[i%s]" % (s[1], '' if s[2] == ZERO else ' + (' + fmt(s[2]) + ')')
    if s[0] == 'const':
        return "%r[i + (%s)]" % (s[1], fmt(s[2]))
    if s[0] == 'byte':
        return "0x%02X" % s[1] if s[1] is not None else 'byte?'
    return '?'


def fmt_segs(segs):
    return " ".join("[%s, %s)=%s" % (fmt(a), fmt(b), fmt_src(s)) for a, b, s in segs) or '(empty)'


def found_index(m):
    """absolute index of the byte a recorded search found; m = (atom, base, off, len, byte, mode)"""
    at, base, off, ln, byte, mode = m
    if mode is True:
        return fm.add(fm.add(off, ln), fm.add(fm.lin_atom(at), fm.lin_const(1)), -1)
    return fm.add(off, fm.lin_atom(at))


def from_end(m):
    """does the search return the match nearest to the end of the slice?"""
    return m[5] in (True, 'rpos')


def effects_of(w):
    return [m[1:] for m in sorted(markers(w, 'fx'), key=lambda m: m[0])]


def replay(rule, w, base, cap):
    """content of buffer `base` at the exit world w"""
    c = Content(rule, w, cap)
    for eff in effects_of(w):
        if eff[1] != base:
            continue
        c.apply(eff)
    return c
