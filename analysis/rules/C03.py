"""C03 — no panic, abort, overflow or out-of-bounds access for any input and buffer size.

Engine E3: abstract interpretation of each library function's MIR with *linear* symbolic values (parameters, struct
fields, slice/str lengths, results of searches) and a set of linear path facts; every numeric obligation is generated
from the MIR itself — each `Assert` terminator (bounds check, add/sub/shift overflow) and the documented precondition of
each unchecked / panicking slice, str, copy and unwrap operation — and discharged by Fourier–Motzkin entailment from
the guards on the path, the contracts of the std / helper functions involved, and three struct invariants that are
themselves checked inductively (assumed at entry of every method, proved at every exit of every `&mut self` method):
    Editor:  cursor <= valid <= len(buffer)
    History: used <= len(buffer);  cursor = Some(c) => c < used
    Autocompletion: autocompleted = Some(n) => n <= len(buffer)
Loops: at a back edge the values modified on paths around the loop are replaced by fresh atoms (no invented
invariants), except for the *counter lemma*: a local that is 0 before a loop over a slice iterator (or a `zip` of two, or a
`0..n` range) and whose only assignment in the loop is a single `+= 1` is at most the number of completed iterations,
hence `< len` inside the body and `<= len` after the loop.
Byte-level state machines whose indices are bounded by their finite state (`Utf8Accum`, `encode_utf8`, `char_pop_front`,
`Writer` last-bytes) are checked in the value-set domain over their extracted reachable states / shapes.

Verdict per obligation site: discharged | assumed (named content invariant, printed, never counted as proved) |
undischarged -> VIOLATION. A site that no analysed context reaches is a violation too (the inventory is taken from the
MIR, not from the analysis).
Not decided: obligations resting on buffer *content* (NUL termination of history entries, `insert <= cursor_pos` in the
tokenizer loop, char-boundary facts), listed under `assumed`.  The UTF-8 validity preconditions of the unchecked text
constructions (`from_utf8_unchecked[_mut]`, `str::get_unchecked`) are decided by C02.U4 (index provenance) and C17.D (the
helpers that produce those indices stop on scalar boundaries); both are imported here, a failure is reported under C03.
"""
import json
import os
from .. import facts as F
from .. import fm
from ..absint import (Interp, World, TOP, UNIT, TRUE, FALSE, BOOL, UINT_ANY, OPTION, RESULT, none, some, const_int,
                      int_singleton, to_lin, from_lin, lin_add, is_symbolic, Inconclusive, mk_int)
from .common import lib_crate, strip_crate
from . import C14 as base

LEVEL = "other"
IMPORTS = [
    ("C02", ("C02.boundary",), "precondition of `from_utf8_unchecked` / `str::get_unchecked`: the bytes are well-formed UTF-8, i.e. both ends of the range are positions between two scalars"),
    ("C17", ("C17.counting",), "precondition of `from_utf8_unchecked` / `str::get_unchecked`: the indices computed by `char_byte_index` / `common_prefix_len` are positions between two scalars"),
]
ISZ = (1 << 63) - 1
USZ = (1 << 64) - 1


def L(v):
    """abstract value -> fm linear form or None"""
    l = to_lin(v)
    if l is None:
        return None
    return fm.lin(dict(l[0]), l[1])


ASCII_FAMILY = ('pos[', 'used0', 'hc0', 'merged@')


def boundary_atom(a):
    """Is the atom, by its origin, a position between two scalars of the text it indexes?"""
    if a.startswith('len(') or a.startswith('byteidx@') or a.startswith('prefix@'):
        return True
    if a.startswith('pos['):
        return True                       # index of an ASCII byte found by a search with a constant predicate
    if a in ('valid0', 'used0', 'hc0', 'ac0') or a.startswith('merged@'):
        return True                       # struct fields with the inductive boundary invariant (checked at exits)
    if '@loop' in a and ('(*_1).' in a):
        return True                       # the same fields re-named at a loop head
    return False


def boundary_form(v, facts=()):
    """(ok, why): is the linear value a boundary position? constants other than 0 only as +-1 next to an ASCII
    delimiter (NUL / LF / found ASCII byte) or after an ASCII byte was stored at that index (marker fact)"""
    l = to_lin(v)
    if l is None:
        return False, "index is not a linear form of known positions (%s)" % (v[:2],)
    items, c = l
    bad = [a for a, k in items if not boundary_atom(a)]
    if bad:
        return False, "index involves %s, which is not a scalar boundary by construction" % bad[0]
    if c == 0:
        return True, ''
    nfam = sum(abs(k) for a, k in items if a.startswith(ASCII_FAMILY) or '@loop' in a)
    if abs(c) <= nfam:
        return True, ''       # each found / stored one-byte ASCII delimiter accounts for one byte of offset
    if c == 1:
        base = from_lin((items, 0))
        mark = '$ascii@%s' % (to_lin(base),)
        if any(mark in fm.atoms_of(f) for f in facts):
            return True, ''
    if not items:
        return (c in (0,)), "constant offset %d" % c
    return False, "offset %+d from a boundary" % c


CHAR_UNIT = ('cursor0', 'chars@')
BYTE_UNIT = ('valid0', 'cap(', 'len(', 'byteidx@', 'pos', 'prefix@', 'merged@', 'ac0')


def unit_mix(*forms):
    """(char atoms, byte atoms) occurring together in the given linear forms: the editor's cursor and the results of
    `char_count` count *characters*, lengths / capacities / byte offsets count *bytes*; a comparison, sum or index that
    mixes them is only right for one-byte characters"""
    ch, by = set(), set()
    for f_ in forms:
        if f_ is None:
            continue
        for a, k in f_[0]:
            if a.startswith(CHAR_UNIT):
                ch.add(a)
            elif a.startswith(BYTE_UNIT):
                by.add(a)
    return (sorted(ch), sorted(by)) if ch and by else None


class Site:
    __slots__ = ('key', 'fn', 'kind', 'span', 'verdicts', 'goals')

    def __init__(self, key, fn, kind, span):
        self.key = key
        self.fn = fn
        self.kind = kind
        self.span = span
        self.verdicts = set()
        self.goals = []


def searched_pred(I, clos):
    """(b, 'eq') if the search predicate is true for the single byte value b only, (b, 'ne') if it is false for b only
    (closure evaluated abstractly on a set of probe bytes that covers the constants this code base compares with), else None"""
    if clos[0] != 'closure':
        return None
    body = I.by_path.get(F.raw_key(clos[1]))
    if body is None:
        return None
    from ..absint import Interp as _I
    sub = _I(I.crates, None)
    env = ('ref', ('const', clos)) if body.body['locals'][1]['ty'].get('k') == 'ref' else clos
    # the predicate may test `b == c` or `b != c` (rev().position(|&b| b != b' ')): find the byte on which it differs
    outs = {}
    for cand in (0x00, 0x0A, 0x0D, 0x20, 0x22, 0x2D, 0x41, 0xC3):
        try:
            r = sub.run(body, [env, ('ref', ('const', const_int(cand)))], None, {})
        except Exception:
            return None
        vs = set()
        for w_, rv in r:
            vs |= set(rv[1]) if rv[0] == 'int' and rv[2] is None else {0, 1}
        outs[cand] = vs
    trues = [c for c, v in outs.items() if v == {1}]
    falses = [c for c, v in outs.items() if v == {0}]
    if len(trues) == 1 and len(falses) == len(outs) - 1:
        return trues[0], 'eq'
    if len(falses) == 1 and len(trues) == len(outs) - 1:
        return falses[0], 'ne'       # first byte that is NOT c: positions skipped over are all the ASCII byte c
    return None


def searched_byte(I, clos):
    """the single byte value the search predicate singles out (see searched_pred), else None"""
    r = searched_pred(I, clos)
    return r[0] if r else None


def cfg_info(fn):
    """loops of the MIR CFG: back edges, loop blocks, modified locals/fields, counter-lemma candidates"""
    blocks = fn.blocks
    n = len(blocks)
    succ = [[] for _ in range(n)]
    for i, b in enumerate(blocks):
        if b['cleanup']:
            continue
        t = b['term']
        k = t['k']
        if k == 'switch':
            succ[i] = list(t['targets']) + [t['otherwise']]
        elif k in ('goto', 'assert', 'drop'):
            succ[i] = [t['t']]
        elif k == 'call' and t['t'] is not None:
            succ[i] = [t['t']]
    # back edges by DFS
    color = [0] * n
    back = set()
    stack = [(0, iter(succ[0]))]
    color[0] = 1
    while stack:
        u, it = stack[-1]
        try:
            v = next(it)
            if color[v] == 0:
                color[v] = 1
                stack.append((v, iter(succ[v])))
            elif color[v] == 1:
                back.add((u, v))
        except StopIteration:
            color[u] = 2
            stack.pop()
    pred = [[] for _ in range(n)]
    for u in range(n):
        for v in succ[u]:
            pred[v].append(u)
    loops = {}
    for (u, h) in back:
        body = {h, u}
        work = [u]
        while work:
            x = work.pop()
            if x == h:
                continue
            for p in pred[x]:
                if p not in body:
                    body.add(p)
                    work.append(p)
        loops.setdefault(h, set()).update(body)
    info = {}
    for h, body in loops.items():
        srcs = {u for (u, hh) in back if hh == h}
        # blocks of the loop from which a back edge is reachable without leaving the loop
        reach = set(srcs)
        work = list(srcs)
        while work:
            x = work.pop()
            for p in pred[x]:
                if p in body and p not in reach and x != h:
                    reach.add(p)
                    work.append(p)
        reach.add(h)
        mod_locals = set()
        mod_fields = set()
        incs = {}
        assigns = {}
        for bi in reach:
            b = blocks[bi]
            for s in b['stmts']:
                if s['k'] != 'assign':
                    continue
                pl = s['place']
                if not pl['p']:
                    mod_locals.add(pl['l'])
                    assigns.setdefault(pl['l'], []).append((bi, s))
                elif pl['p'][0]['k'] == 'deref' and len(pl['p']) >= 2 and pl['p'][1]['k'] == 'field':
                    mod_fields.add((pl['l'], pl['p'][1]['i']))
                elif pl['p'][0]['k'] == 'deref':
                    pass      # a store through a reference does not change the reference
                else:
                    mod_locals.add(pl['l'])
                    assigns.setdefault(pl['l'], []).append((bi, None))
                rv = s['rv']
                if rv['k'] == 'ref' and rv.get('mut') and not any(e['k'] == 'deref' for e in rv['place']['p']):
                    mod_locals.add(rv['place']['l'])
                    assigns.setdefault(rv['place']['l'], []).append((bi, None))
            t = b['term']
            if t['k'] == 'call':
                if not t['dest']['p']:
                    mod_locals.add(t['dest']['l'])
                    assigns.setdefault(t['dest']['l'], []).append((bi, None))
        # counters: single assignment `c = move _t.0` where _t = AddWithOverflow(copy c, const 1)
        counters = set()
        for l, sites in assigns.items():
            if len(sites) != 1 or sites[0][1] is None:
                continue
            bi, s = sites[0]
            rv = s['rv']
            if rv['k'] == 'use' and rv['op']['k'] == 'move' and rv['op']['place']['p'] and rv['op']['place']['p'][0].get('i') == 0:
                tl = rv['op']['place']['l']
                # find the definition of tl in a predecessor block ending with the overflow assert
                for pb in pred[bi]:
                    for s2 in blocks[pb]['stmts']:
                        if s2['k'] == 'assign' and not s2['place']['p'] and s2['place']['l'] == tl:
                            r2 = s2['rv']
                            if r2['k'] == 'bin' and r2['op'] == 'AddWithOverflow' and r2['l'].get('k') == 'copy' \
                                    and r2['l']['place'] == {'l': l, 'p': []} and r2['r'].get('k') == 'const' \
                                    and (r2['r'].get('val') or {}).get('int') == 1:
                                counters.add(l)
        # all lemma locals must be 0 before the loop: exactly one assignment outside the loop, `= const 0`
        def init_zero(l):
            outside = []
            for bi2, b2 in enumerate(blocks):
                if bi2 in body or b2['cleanup']:
                    continue
                for s2 in b2['stmts']:
                    if s2['k'] == 'assign' and s2['place']['l'] == l and not s2['place']['p']:
                        outside.append(s2['rv'])
                t2 = b2['term']
                if t2['k'] == 'call' and t2['dest']['l'] == l:
                    outside.append(None)
            return len(outside) == 1 and outside[0] is not None and outside[0]['k'] == 'use' \
                and outside[0]['op'].get('k') == 'const' and (outside[0]['op'].get('val') or {}).get('int') == 0
        counters = {c for c in counters if init_zero(c)}
        # `always` counters: the increment lies on every path from the head around the loop
        always = set()
        for c in counters:
            inc_bb = assigns[c][0][0]
            seen_ = {h}
            work2 = [h]
            ok = True
            while work2:
                x = work2.pop()
                if x == inc_bb:
                    continue
                for y in succ[x]:
                    if y == h and x in srcs:
                        ok = False
                    if y in body and y not in seen_:
                        seen_.add(y)
                        work2.append(y)
            if ok:
                always.add(c)
        # followers: every assignment in the loop copies a counter
        followers = {}
        for l, sites in assigns.items():
            if l in counters or not init_zero(l):
                continue
            srcs_c = set()
            good = True
            for bi2, s2 in sites:
                if s2 is None or s2['rv']['k'] != 'use' or s2['rv']['op'].get('k') not in ('copy', 'move') or s2['rv']['op']['place']['p']:
                    good = False
                    break
                src = s2['rv']['op']['place']['l']
                # one level of compiler temporaries: `_t = copy _c; x = move _t` in the same block
                for s3 in blocks[bi2]['stmts']:
                    if s3 is s2:
                        break
                    if s3['k'] == 'assign' and not s3['place']['p'] and s3['place']['l'] == src and s3['rv']['k'] == 'use' \
                            and s3['rv']['op'].get('k') == 'copy' and not s3['rv']['op']['place']['p']:
                        src = s3['rv']['op']['place']['l']
                srcs_c.add(src)
            if good and len(srcs_c) == 1 and next(iter(srcs_c)) in counters:
                followers[l] = next(iter(srcs_c))
        info[h] = dict(body=body, reach=reach, srcs=srcs, mod_locals=mod_locals, mod_fields=mod_fields, counters=counters,
                       always=always, followers=followers)
    return dict(back=back, loops=info, succ=succ)


_CFG = {}


def cfg_of(fn):
    k = id(fn.body)
    if k not in _CFG:
        _CFG[k] = cfg_info(fn)
    return _CFG[k]


def self_mod_fields(fn):
    """fields of *self assigned in fn (syntactic MOD set)"""
    out = set()
    for b in fn.blocks:
        for s in b['stmts']:
            if s['k'] == 'assign':
                pl = s['place']
                if pl['l'] == 1 and len(pl['p']) >= 2 and pl['p'][0]['k'] == 'deref' and pl['p'][1]['k'] == 'field':
                    out.add(pl['p'][1]['i'])
    return out


class E3(object):
    """st = frozenset of fm constraints (path facts)"""

    def __init__(self, lib, sites, assumed):
        self.lib = lib
        self.sites = sites
        self.assumed = assumed
        self.fresh = 0
        self.h_compares = []
        self.last_nb = None
        self.u4 = {}          # utf8 site key -> list of (ok, why, ctx)
        self.keymap = {}
        self.ctx = ''
        self.notes = []
        self.mixed = []       # (function, what, char atoms, byte atoms)
        self.pruned = {}      # function npath -> set of blocks entered only through branches found infeasible
        self.entered = {}     # function npath -> set of blocks some world entered

    # ---------- facts ----------
    def facts_of(self, w):
        return list(w.st)

    def add(self, w, *cons):
        cons = [c for c in cons if c is not None]
        if not cons:
            return w
        return w.with_st(w.st | frozenset(cons))

    def axioms(self, atoms):
        out = []
        for a in atoms:
            out.append(fm.lin({a: 1}))                       # a >= 0 (all atoms are unsigned sizes/indices)
            if a.startswith('len(') or a.startswith('cap('):
                out.append(fm.lin({a: -1}, ISZ))             # slices are at most isize::MAX bytes long
        return out

    def prove(self, w, goal):
        facts = self.facts_of(w)
        if any(not c[0] and c[1] < 0 for c in facts):
            return True       # the path facts are contradictory: this world is unreachable
        neg = fm.negate(goal)
        atoms = set(fm.atoms_of(goal))
        # staged: axioms only, then facts at distance 1, 2, ... from the goal's atoms
        used = []
        rest = list(facts)
        for stage in range(6):
            if fm.infeasible(used + self.axioms(atoms) + [neg]):
                return True
            new = [f for f in rest if fm.atoms_of(f) & atoms]
            if not new:
                return False
            rest = [f for f in rest if f not in new]
            used += new
            for f in new:
                atoms |= fm.atoms_of(f)
        return fm.infeasible(used + self.axioms(atoms) + [neg])

    def feasible(self, w, extra):
        facts = self.facts_of(w) + list(extra)
        atoms = set()
        for f in facts:
            atoms |= fm.atoms_of(f)
        return not fm.infeasible(facts + self.axioms(atoms))

    # ---------- obligations ----------
    def site(self, fn, kind, detail, span, bb):
        # key: function, kind, detail and the ordinal among the function's sites of that kind (by block order)
        key = self.keymap.get("%s|%s|%s|bb%d" % (fn.npath, kind, detail, bb), "%s|%s|%s|bb%d" % (fn.npath, kind, detail, bb))
        s = self.sites.get(key)
        if s is None:
            s = Site(key, fn.npath, "%s %s" % (kind, detail), span)
            self.sites[key] = s
        return s

    def oblige(self, w, site, goals, what):
        """goals: list of fm constraints (all must hold) or None if not expressible"""
        if goals is None or any(g is None for g in goals):
            site.verdicts.add('undischarged')
            site.goals.append("%s [%s]: not expressible in the linear domain (%s)" % (what, self.ctx, 'unknown operand'))
            return w
        for g in goals:
            if self.prove(w, g):
                site.verdicts.add('discharged')
            else:
                site.verdicts.add('undischarged')
                if len(site.goals) < 3:
                    rel = fm.relevant(self.facts_of(w), fm.atoms_of(g))
                    site.goals.append("%s [%s]: cannot prove %s from {%s}" % (what, self.ctx, fm.fmt(g), "; ".join(fm.fmt(f) for f in rel[:8])))
        # after the check the condition holds on the continuing path
        return self.add(w, *goals)

    # ---------- interpreter hooks ----------
    def inline_ok(self, I, ci, body):
        # same-type, loop-free methods are inlined (their obligations are checked in context as well)
        caller_t = base.self_adt(ci.fn) if hasattr(ci.fn, 'impl_self') else None
        bt = base.self_adt(body)
        if bt and (bt == caller_t or bt in STRUCTS) and not cfg_of(body)['back'] and body.kind == 'AssocFn':
            # only with a known receiver (otherwise the callee's obligations would be judged without its invariant)
            a0 = ci.args[0] if getattr(ci, 'args', None) else TOP
            p0 = body.body['locals'][1]['ty'] if body.body['arg_count'] >= 1 else {}
            t0 = p0
            while t0.get('k') == 'ref':
                t0 = t0['to']
            if not (t0.get('k') == 'adt' and F.norm_path(t0['path']) == bt):
                return True       # constructor: no receiver
            if a0[0] == 'ref':
                return True
            return a0[0] == 'adt'
        # small loop-free free functions of the caller's own module without obligation sites of their own contract
        # (predicate helpers such as `starts_option(bytes)`): their facts are needed where they are used
        if body.kind == 'Fn' and bt is None and body.npath not in PRECONDITIONS and not cfg_of(body)['back'] \
                and len(body.blocks) <= 25 and hasattr(ci.fn, 'npath'):
            def module_of(np_):
                np_ = np_.split('::{closure')[0]
                if np_.startswith('<'):
                    return np_[1:].split(' as ')[0].rsplit('::', 1)[0].rsplit('::', 1)[0] if ' as ' in np_ else ''
                return np_.rsplit('::', 2)[0] if np_.count('::') >= 2 else np_.rsplit('::', 1)[0]
            cm, bm = module_of(ci.fn.npath), body.npath.rsplit('::', 1)[0]
            return bool(bm) and (cm == bm or ci.fn.npath.startswith(bm + '::') or ('<' + bm + '::') in ci.fn.npath)
        return False

    def sym_of_type(self, w, ty, ci, tag):
        """symbolic value of a result type: slices get a length atom, sizes an atom, tuples recurse"""
        t = ty
        k = t.get('k')
        if k == 'ref' and t['to'].get('k') in ('str', 'slice'):
            w, a = self.new_atom(w, 'len(%s)' % tag, ci)
            return w, ('slc', tag, ('sym', a))
        if k == 'int' and t['w'] >= 32 and not t['signed']:
            w, a = self.new_atom(w, tag, ci)
            return w, ('sym', a)
        if k == 'tuple':
            vals = []
            for i, x in enumerate(t['of']):
                w, v = self.sym_of_type(w, x, ci, "%s.%d" % (tag, i))
                vals.append(v)
            return w, ('tuple', tuple(vals))
        from ..absint import top_of_type
        return w, top_of_type(t)

    def opaque_result(self, I, w, ci):
        ty = ci.dest_ty or {}
        if ty.get('k') == 'adt' and F.norm_path(ty['path']) == OPTION and ty.get('args'):
            w2, v = self.sym_of_type(w, ty['args'][0], ci, 'ret(%s)' % (ci.name or '?'))
            if v != TOP:
                return [(w, none()), (w2, some(v))]
            return None
        w2, v = self.sym_of_type(w, ty, ci, 'ret(%s)' % (ci.name or '?'))
        if v[0] in ('slc', 'sym', 'tuple'):
            return [(w2, v)]
        return None

    def havoc_value(self, I, w, ci, target, old):
        """what user code can do to a value it gets `&mut` access to: an Autocompletion keeps its buffer (private
        field, no method replaces it) and its invariant (every public method preserves it: checked above)"""
        if old[0] == 'adt' and old[1] == 'autocomplete::Autocompletion':
            ai = I.field_index(old[1], 'autocompleted')
            pi = I.field_index(old[1], 'partial')
            bi = I.field_index(old[1], 'buffer')
            w, atom = self.new_atom(w, 'merged', ci)
            fs = list(old[3])
            fs[ai] = ('optsym', atom)
            fs[pi] = BOOL
            facts = []
            if fs[bi][0] == 'slc' and L(fs[bi][2]) is not None:
                facts.append(fm.le(fm.lin_atom(atom), L(fs[bi][2])))
            return self.add(w, *facts), ('adt', old[1], old[2], tuple(fs))
        return w, TOP

    def on_pruned(self, fn, bb_from, bb_to):
        self.pruned.setdefault(fn.npath, set()).add((bb_from, bb_to))

    def note_mix(self, I, what, *forms):
        m = unit_mix(*forms)
        if m:
            fn = getattr(I, '_fn', None)
            rec = (fn.npath if fn is not None else '?', what, tuple(m[0]), tuple(m[1]))
            if rec not in self.mixed:
                self.mixed.append(rec)

    def on_symbranch(self, I, w, v, truth):
        a, b = L(v[2]), L(v[3])
        if a is None or b is None:
            return w
        self.note_mix(I, 'comparison', a, b)
        op = v[1]
        if not truth:
            op = {'Eq': 'Ne', 'Ne': 'Eq', 'Lt': 'Ge', 'Ge': 'Lt', 'Gt': 'Le', 'Le': 'Gt'}[op]
        cons = []
        if op == 'Lt':
            cons = [fm.lt(a, b)]
        elif op == 'Le':
            cons = [fm.le(a, b)]
        elif op == 'Gt':
            cons = [fm.lt(b, a)]
        elif op == 'Ge':
            cons = [fm.le(b, a)]
        elif op == 'Eq':
            cons = [fm.le(a, b), fm.le(b, a)]
        elif op == 'Ne':
            # a != b: split is not convex; use it only when one side is provably <= the other
            if self.prove(w, fm.le(a, b)):
                cons = [fm.lt(a, b)]
            elif self.prove(w, fm.le(b, a)):
                cons = [fm.lt(b, a)]
        if cons and not self.feasible(w, cons):
            return None
        return self.add(w, *cons)

    def on_store(self, I, w, depth, place, v, stmt):
        """remember that a one-byte ASCII constant was stored at a (symbolic) index: the position right after it is a
        scalar boundary if the index was one (used by the boundary classification of C02.U4)"""
        n = int_singleton(v) if v[0] == 'int' else None
        if n is None or n >= 0x80:
            return None
        idx = [e for e in place['p'] if e['k'] == 'index']
        if not idx:
            return None
        iv = w.store.get((depth, idx[0]['l']), TOP)
        l = to_lin(iv)
        if l is None or not l[0]:
            return None
        mark = '$ascii@%s' % (l,)
        t = I.resolve(w, depth, place)
        w2 = I.write(w, t, v)
        return self.add(w2, fm.lin({mark: 1}))

    def on_assert(self, I, w, fn, bb, t, depth):
        m = t['msg']
        kind = m['kind']
        if kind == 'BoundsCheck':
            idx = I.operand(w, depth, m['index'])
            ln = I.operand(w, depth, m['len'])
            site = self.site(fn, 'bounds', 'index', t['span'], bb)
            if idx[0] == 'int' and ln[0] == 'int' and idx[2] is None and ln[2] is None and idx[1] and ln[1]:
                ok = max(idx[1]) < min(ln[1])
                site.verdicts.add('discharged' if ok else 'undischarged')
                if not ok:
                    site.goals.append("index %s < len %s [%s]" % (sorted(idx[1]), sorted(ln[1]), self.ctx))
                return w
            a, b = L(idx), L(ln)
            self.note_mix(I, 'index', a, b)
            return self.oblige(w, site, [fm.lt(a, b)] if a is not None and b is not None else None, "index < len")
        if kind == 'Overflow':
            op = m['op']
            l = I.operand(w, depth, m['l'])
            r = I.operand(w, depth, m['r'])
            site = self.site(fn, 'overflow', op, t['span'], bb)
            if l[0] == 'int' and r[0] == 'int' and l[2] is None and r[2] is None and l[1] and r[1]:
                # value-set domain: small finite sets (u8 state machines)
                if op == 'Add':
                    ok = max(l[1]) + max(r[1]) <= 255
                elif op == 'Sub':
                    ok = min(l[1]) - max(r[1]) >= 0
                else:
                    ok = max(r[1]) < 8
                site.verdicts.add('discharged' if ok else 'undischarged')
                if not ok:
                    site.goals.append("%s on %s, %s [%s]" % (op, sorted(l[1])[:6], sorted(r[1])[:6], self.ctx))
                return w
            a, b = L(l), L(r)
            if op == 'Sub':
                return self.oblige(w, site, [fm.le(b, a)] if a is not None and b is not None else None, "no underflow in a - b")
            if op == 'Add':
                if a is None or b is None:
                    return self.oblige(w, site, None, "no overflow in a + b")
                return self.oblige(w, site, [fm.le(fm.add(a, b), fm.lin_const(USZ))], "no overflow in a + b")
            if op in ('Shl', 'Shr'):
                if r[0] == 'int' and r[2] is None and r[1] and max(r[1]) < 32:
                    site.verdicts.add('discharged')
                    return w
                return self.oblige(w, site, None, "shift amount < bit width")
            return self.oblige(w, site, None, op)
        return w

    def new_atom(self, w, name, ci):
        """canonical atom for the value produced at this call site; facts about an earlier value from the same site
        (a previous loop iteration) are dropped"""
        if name.startswith('len('):
            atom = "len(%s@%s:bb%d)" % (name[4:-1], ci.fn.name, ci.bb)
        else:
            atom = "%s@%s:bb%d" % (name, ci.fn.name, ci.bb)
        st = frozenset(c for c in w.st if atom not in fm.atoms_of(c))
        return (w.with_st(st) if len(st) != len(w.st) else w), atom

    def on_edge(self, I, fn, bb, nbb, w, depth):
        ent = self.entered.setdefault(fn.npath, {0})
        ent.add(bb)
        ent.add(nbb)
        return self.on_edge_(I, fn, bb, nbb, w, depth)

    def on_edge_(self, I, fn, bb, nbb, w, depth):
        info = cfg_of(fn)
        if (bb, nbb) not in info['back']:
            return w
        lp = info['loops'][nbb]
        # the struct invariant is a candidate loop invariant: if it holds at this back edge it is re-assumed at the head
        me0 = base.self_adt(fn)
        inv_holds = False
        if me0 in STRUCTS and (-1, 0) in w.store and w.store[(-1, 0)][0] == 'adt':
            inv_holds, _ = STRUCTS[me0][1](self, I, w, w.store[(-1, 0)])
        s = dict(w.store)
        dropped = set()
        counters = lp['counters']
        # candidate loop invariants `x <= len` for the lengths being iterated over: kept for a loop-modified local only if
        # the value arriving at this back edge satisfies them (the entry value is checked where the loop is entered, the
        # body is re-analysed from the abstracted head: an inductive argument, nothing is invented)
        iter_lens = []
        for (d_, l_), val_ in w.store.items():
            if d_ == depth and val_[0] == 'iterv':
                iter_lens += [x for x in val_[1] if L(x) is not None]
        bounded = {}
        for l in lp['mod_locals']:
            v_ = w.store.get((depth, l))
            if v_ is None or fn.body['locals'][l]['ty'].get('k') != 'int' or L(v_) is None:
                continue
            keep = [B for B in iter_lens if self.prove(w, fm.le(L(v_), L(B)))]
            if keep:
                bounded[l] = keep
        for l in lp['mod_locals']:
            cell = (depth, l)
            if cell not in s:
                continue
            v = s[cell]
            ty = fn.body['locals'][l]['ty']
            if v[0] == 'iterv' or (v[0] == 'adt' and v[1].endswith('range::Range')):
                continue      # iterators keep the (loop-invariant) bounds they were created with
            if v[0] == 'int' and v[2] is None and ty.get('k') in ('int', 'bool', 'char'):
                continue      # finite value sets stay in the value-set domain (widening bounds their growth)
            if ty.get('k') == 'int':
                atom = "%s:_%d@loop%d" % (fn.name, l, nbb)
                s[cell] = ('sym', atom)
                dropped.add(atom)
            elif ty.get('k') == 'adt' and v[0] == 'adt' and F.norm_path(ty['path']) not in (OPTION,):
                continue      # enums with few variants (modes) are explored by variant
            elif ty.get('k') == 'bool':
                s[cell] = BOOL
            elif ty.get('k') == 'ref' and ty['to'].get('k') in ('str', 'slice'):
                atom = "len(%s:_%d@loop%d)" % (fn.name, l, nbb)
                s[cell] = ('slc', 'loopvar', ('sym', atom))
                dropped.add(atom)
            else:
                s[cell] = TOP
        w2 = World(s, w.st)
        mod_fields = set(lp['mod_fields'])
        # fields of *self written by same-type methods called around the loop (syntactic MOD sets, transitively)
        me = base.self_adt(fn)
        if me:
            for bi in lp['reach']:
                t = fn.blocks[bi]['term']
                if t['k'] != 'call':
                    continue
                callee = I.by_path.get(F.raw_key(t['func'].get('resolved') or t['func'].get('path') or ''))
                seen = set()
                stack = [callee] if callee is not None else []
                while stack:
                    c = stack.pop()
                    if c is None or c.path in seen or base.self_adt(c) != me:
                        continue
                    seen.add(c.path)
                    for fi in self_mod_fields(c):
                        mod_fields.add((1, fi))
                    for b2 in c.blocks:
                        t2 = b2['term']
                        if t2['k'] == 'call':
                            stack.append(I.by_path.get(F.raw_key(t2['func'].get('resolved') or t2['func'].get('path') or '')))
        for (base_l, fi) in mod_fields:
            tgt = I.resolve(w2, depth, {'l': base_l, 'p': [{'k': 'deref'}, {'k': 'field', 'i': fi, 'ty': {}}]})
            if tgt is None:
                continue
            cur = I.read(w2, tgt)
            if is_symbolic(cur) or cur[0] == 'int':
                atom = "%s:(*_%d).%d@loop%d" % (fn.name, base_l, fi, nbb)
                w2 = I.write(w2, tgt, ('sym', atom))
                dropped.add(atom)
            elif cur[0] == 'adt' and cur[1] == OPTION:
                # Option<usize> field (History.cursor): unknown variant, refined lazily; its payload is a loop atom
                atom = "%s:(*_%d).%d@loop%d" % (fn.name, base_l, fi, nbb)
                w2 = I.write(w2, tgt, ('optsym', atom))
                dropped.add(atom)
            else:
                w2 = I.write(w2, tgt, TOP)
        if dropped:
            st = frozenset(c for c in w2.st if not (fm.atoms_of(c) & dropped))
            w2 = w2.with_st(st)
        if inv_holds:
            w2 = self.add(w2, *invariant_facts(I, me0, w2.store[(-1, 0)]))
        for l, Bs in bounded.items():
            nv = w2.store.get((depth, l))
            if nv is not None and L(nv) is not None:
                w2 = self.add(w2, *[fm.le(L(nv), L(B)) for B in Bs])
        # relational counter lemma: an at-most-once counter never exceeds an exactly-once counter; a follower never
        # exceeds the counter it copies (all are 0 before the loop and only grow)
        rel = []
        def atom_of(l):
            v = w2.store.get((depth, l))
            return L(v) if v is not None else None
        for c1 in lp['counters']:
            for c2 in lp['always']:
                if c1 != c2 and atom_of(c1) is not None and atom_of(c2) is not None:
                    rel.append(fm.le(atom_of(c1), atom_of(c2)))
        for x, c in lp['followers'].items():
            if atom_of(x) is not None and atom_of(c) is not None:
                rel.append(fm.le(atom_of(x), atom_of(c)))
        if rel:
            w2 = self.add(w2, *rel)
        return w2

    # ---------- contracts ----------
    def slc_len(self, I, w, v, ty=None):
        """length (abstract value) of a slice-like argument, or None"""
        if v[0] == 'slc':
            return v[2]
        if v[0] == 'cstr':
            return const_int(len(v[1]))
        if v[0] == 'sliceref':
            return v[3]
        if v[0] == 'ref' and ty is not None:
            t = ty
            while t.get('k') == 'ref':
                t = t['to']
            if t.get('k') == 'array' and t.get('len') is not None:
                return const_int(t['len'])
        return None

    def range_obligation(self, w, site, rng, ln, what):
        """obligation of indexing a slice of length `ln` by range value `rng`; -> (world, result length value)"""
        if rng[0] != 'adt':
            return self.oblige(w, site, None, what), None
        nm = rng[1].rsplit('::', 1)[-1]
        ll = L(ln)
        self.last_nb = None
        self.note_mix(self._I, 'range index', ll, *[L(x) for x in rng[3]])
        for x in rng[3]:
            okb, why = boundary_form(x, w.st) if (is_symbolic(x) or x[0] == 'int') else (False, 'unknown index')
            if x[0] == 'int' and int_singleton(x) is not None:
                okb, why = True, ''        # constant offsets are judged by the ASCII tests guarding them (C08 table)
            if not okb:
                self.last_nb = why
        if nm == 'RangeTo':
            e = L(rng[3][0])
            w = self.oblige(w, site, [fm.le(e, ll)] if e is not None and ll is not None else None, what + ": end <= len")
            return w, rng[3][0]
        if nm == 'RangeFrom':
            s_ = L(rng[3][0])
            w = self.oblige(w, site, [fm.le(s_, ll)] if s_ is not None and ll is not None else None, what + ": start <= len")
            if s_ is not None and ll is not None:
                return w, from_lin(lin_add(to_lin(ln), to_lin(rng[3][0]), -1))
            return w, None
        if nm == 'Range':
            s_, e = L(rng[3][0]), L(rng[3][1])
            ok = s_ is not None and e is not None and ll is not None
            w = self.oblige(w, site, [fm.le(s_, e), fm.le(e, ll)] if ok else None, what + ": start <= end <= len")
            if ok:
                return w, from_lin(lin_add(to_lin(rng[3][1]), to_lin(rng[3][0]), -1))
            return w, None
        if nm == 'RangeFull':
            return w, ln
        return self.oblige(w, site, None, what), None

    def mk_slc(self, w, tag, ln, ci):
        if ln is None:
            w, a = self.new_atom(w, 'len(%s)' % tag, ci)
            return w, ('slc', tag, ('sym', a))
        return w, ('slc', tag, ln)

    def on_call(self, I, w, ci, args):
        p = ci.npath or ''
        rp = ci.nresolved or ''
        name = ci.name
        fn = ci.fn
        self._I = I
        tr = strip_crate(ci.trait)
        # ---- Buffer trait on the type parameter
        if tr == 'buffer::Buffer' and args:
            b = args[0]
            obj = I.read(w, b[1]) if b[0] == 'ref' else b
            tag = obj[1] if obj[0] == 'bufobj' else None
            if tag is None:
                return None
            cap = ('sym', 'cap(%s)' % tag)
            if name == 'len':
                return [(w, cap)]
            if name in ('as_slice', 'as_slice_mut'):
                return [(w, ('slc', tag, cap))]
            if name == 'is_empty':
                return [(w, ('symcmp', 'Eq', cap, const_int(0)))]
            return None
        # ---- lengths
        if p in ('core::slice::<impl [T]>::len', 'core::str::<impl str>::len'):
            ln = self.slc_len(I, w, args[0], ci.arg_tys[0] if ci.arg_tys else None)
            if ln is not None:
                return [(w, ln)]
            w, a = self.new_atom(w, 'len(?)', ci)
            return [(w, ('sym', a))]
        if p in ('core::slice::<impl [T]>::is_empty', 'core::str::<impl str>::is_empty'):
            ln = self.slc_len(I, w, args[0], ci.arg_tys[0] if ci.arg_tys else None)
            if ln is not None and is_symbolic(ln):
                return [(w, ('symcmp', 'Eq', ln, const_int(0)))]
            if ln is not None and int_singleton(ln) is not None:
                return [(w, TRUE if int_singleton(ln) == 0 else FALSE)]
            return [(w, BOOL)]
        if p in ('core::str::<impl str>::as_bytes', 'core::str::<impl str>::as_bytes_mut',
                 'core::str::converts::from_utf8_unchecked', 'core::str::converts::from_utf8_unchecked_mut'):
            if 'unchecked' in p:
                s = self.site(fn, 'utf8', name, ci.span, ci.bb)
                s.verdicts.add('delegated:C02')
                a = args[0]
                tag = a[1] if a[0] == 'slc' else ''
                self.u4_record(fn, 'from-bytes', name, ci, '!nb' not in str(tag), str(tag))
            return [(w, args[0])]
        # ---- indexing
        if name in ('index', 'index_mut', 'get_unchecked', 'get_unchecked_mut') and len(args) == 2 and \
                (p.startswith('core::ops::index::') or p.startswith('core::slice::') or p.startswith('core::str::')):
            ln = self.slc_len(I, w, args[0], ci.arg_tys[0] if ci.arg_tys else None)
            site = self.site(fn, 'range', name, ci.span, ci.bb)
            if ln is None:
                w2 = self.oblige(w, site, None, "%s on a slice of unknown length" % name)
                return [self.mk_slc(w2, '?', None, ci)]
            w2, rl = self.range_obligation(w, site, args[1], ln, name)
            tag = args[0][1] if args[0][0] == 'slc' else 'sub'
            if tag.split('!')[0].split('^')[0] == 'H' and args[1][0] == 'adt':
                # sub-slices of the history buffer remember how their start was obtained (C10.H5)
                nm_ = args[1][1].rsplit('::', 1)[-1]
                st_ = args[1][3][0] if nm_ in ('Range', 'RangeFrom') else const_int(0)
                l_ = to_lin(st_)
                origin = 'entry-start' if (l_ is not None and (any(a.startswith('pos[00]') for a, k in l_[0]) or (not l_[0] and l_[1] == 0))) \
                    else 'computed(%s)' % (fm.fmt(L(st_))[:-5] if L(st_) is not None else '?')
                tag = tag.split('^')[0] + '^' + origin
            if self.last_nb and '!nb' not in tag:
                tag = tag + '!nb(%s at %s)' % (self.last_nb, ci.span.split('/')[-1])
            if p.startswith('core::str::'):
                self.u4_record(fn, 'str-slice', name, ci, '!nb' not in tag, tag)
            if args[0][0] == 'ref' and rl is not None and args[1][0] == 'adt' and args[1][1].endswith('RangeTo'):
                # a prefix of an array cell: keep it addressable for the value-set domain
                return [(w2, ('sliceref', args[0][1], const_int(0), rl))]
            return [self.mk_slc(w2, tag, rl, ci)]
        if p == 'core::str::<impl str>::get' and len(args) == 2:
            w3, sv = self.mk_slc(w, 'sub', None, ci)
            ln = self.slc_len(I, w, args[0])
            if args[1][0] == 'adt' and args[1][1].rsplit('::', 1)[-1] == 'RangeFrom' and ln is not None and L(ln) is not None \
                    and L(sv[2]) is not None and L(args[1][3][0]) is not None:
                # Some(text[s..]) only when s <= len(text); its length is len(text) - s
                s_ = L(args[1][3][0])
                tot = fm.add(L(sv[2]), s_)
                w3 = self.add(w3, fm.le(s_, L(ln)), fm.le(tot, L(ln)), fm.le(L(ln), tot))
            return [(w, none()), (w3, some(sv))]
        # ---- iteration
        if p in ('core::slice::<impl [T]>::iter', 'core::str::<impl str>::bytes') or (name == 'into_iter' and args and args[0][0] in ('slc', 'cstr')):
            ln = self.slc_len(I, w, args[0], ci.arg_tys[0] if ci.arg_tys else None)
            return [(w, ('iterv', (ln,) if ln is not None else ()))]
        if name == 'rev' and args and args[0][0] == 'iterv':
            return [(w, args[0])]
        if name in ('take_while', 'filter', 'copied', 'cloned', 'skip_while', 'inspect') and args and args[0][0] == 'iterv' \
                and tr == 'core::iter::traits::iterator::Iterator':
            return [(w, args[0])]         # these only drop elements: the bounds of what they iterate over stay valid
        if name == 'enumerate' and args and args[0][0] == 'iterv' and tr == 'core::iter::traits::iterator::Iterator':
            return [(w, ('iterv', args[0][1], 'enum'))]
        if name == 'count' and args and args[0][0] == 'iterv' and tr == 'core::iter::traits::iterator::Iterator':
            w2, a = self.new_atom(w, 'count', ci)
            return [(self.add(w2, *[fm.le(fm.lin_atom(a), L(x)) for x in args[0][1] if L(x) is not None]), ('sym', a))]
        if name == 'zip' and len(args) == 2 and args[0][0] == 'iterv' and args[1][0] == 'iterv':
            return [(w, ('iterv', args[0][1] + args[1][1]))]
        if name in ('position', 'rposition') and args:
            it = args[0]
            if it[0] == 'ref':
                it = I.read(w, it[1])
            byte = searched_byte(I, args[1]) if len(args) > 1 else None
            w2, a = self.new_atom(w, ('pos[%02X]' % byte) if byte is not None and byte < 0x80 else 'pos', ci)
            if it[0] == 'iterv' and it[1]:
                pv = ('sym', a)
                facts = [fm.lt(fm.lin_atom(a), L(x)) for x in it[1] if L(x) is not None]
                return [(w, none()), (self.add(w2, *facts), some(pv))]
            return [(w, none()), (w2, some(('sym', a)))]
        if name == 'next' and tr == 'core::iter::traits::iterator::Iterator' and args:
            it = args[0]
            tgt = it[1] if it[0] == 'ref' else None
            itv = I.read(w, tgt) if tgt is not None else it
            lens = None
            if itv[0] == 'iterv':
                lens = [x for x in itv[1]]
            elif itv[0] == 'adt' and itv[1].endswith('range::Range'):
                # `for i in a..b`: i is a fresh atom with a <= i < b
                lo, hi = itv[3]
                w, a = self.new_atom(w, 'i', ci)
                facts = []
                if L(lo) is not None:
                    facts.append(fm.le(L(lo), fm.lin_atom(a)))
                if L(hi) is not None:
                    facts.append(fm.lt(fm.lin_atom(a), L(hi)))
                wl = self.counter_facts(I, w, fn, ci, [hi], True)
                wn = self.counter_facts(I, w, fn, ci, [hi], False)
                return [(self.add(wl, *facts), some(('sym', a))), (wn, none())]
            if lens is not None:
                ws = self.counter_facts(I, w, fn, ci, lens, True)
                wn = self.counter_facts(I, w, fn, ci, lens, False)
                item = TOP
                if len(itv) > 2 and itv[2] == 'enum':
                    # `enumerate()`: the position of the element, strictly below every length iterated over
                    ws, ia = self.new_atom(ws, 'position', ci)
                    ws = self.add(ws, *[fm.lt(fm.lin_atom(ia), L(x)) for x in lens if L(x) is not None])
                    # counter lemma, relational form: a counter that is 0 before the loop and steps by at most one per
                    # iteration is at most the number of completed iterations, which is the position `enumerate` hands out
                    info_ = cfg_of(fn)
                    for h_, l_ in info_['loops'].items():
                        if ci.bb in l_['body']:
                            for c_ in l_['counters']:
                                cv = w.store.get((ci.depth, c_))
                                if cv is not None and L(cv) is not None:
                                    f_ = fm.le(L(cv), fm.lin_atom(ia))
                                    if self.feasible(ws, [f_]):
                                        ws = self.add(ws, f_)
                    item = ('tuple', (('sym', ia), TOP))
                return [(ws, some(item)), (wn, none())]
            return None
        # ---- copies
        if p == 'core::slice::<impl [T]>::copy_within' and len(args) == 3:
            ln = self.slc_len(I, w, args[0])
            site = self.site(fn, 'copy_within', 'src+dest', ci.span, ci.bb)
            rng, dest = args[1], args[2]
            if ln is None or rng[0] != 'adt' or not rng[1].endswith('range::Range'):
                return [(self.oblige(w, site, None, "copy_within"), UNIT)]
            s_, e, d, ll = L(rng[3][0]), L(rng[3][1]), L(dest), L(ln)
            ok = None not in (s_, e, d, ll)
            goals = [fm.le(s_, e), fm.le(e, ll), fm.le(fm.add(d, fm.add(e, s_, -1)), ll)] if ok else None
            w2 = self.oblige(w, site, goals, "copy_within: start <= end <= len and dest + (end - start) <= len")
            w2 = self.add(w2, fm.lin({'$copy_within%s@%s' % (self._ord(fn, ci), fn.name): 1}))
            return [(w2, UNIT)]
        if rp.endswith('utils::copy_nonoverlapping') or p.endswith('utils::copy_nonoverlapping'):
            la, lb, n = self.slc_len(I, w, args[0]), self.slc_len(I, w, args[1]), L(args[2])
            site = self.site(fn, 'copy_nonoverlapping', 'len', ci.span, ci.bb)
            ok = la is not None and lb is not None and n is not None and L(la) is not None and L(lb) is not None
            goals = [fm.le(n, L(la)), fm.le(n, L(lb))] if ok else None
            return [(self.oblige(w, site, goals, "copy_nonoverlapping: n <= len(src) and n <= len(dst)"), UNIT)]
        if rp.endswith('utils::split_at_mut') or p.endswith('utils::split_at_mut'):
            ln, mid = self.slc_len(I, w, args[0]), L(args[1])
            site = self.site(fn, 'split_at_mut', 'mid', ci.span, ci.bb)
            ok = ln is not None and mid is not None and L(ln) is not None
            w2 = self.oblige(w, site, [fm.le(mid, L(ln))] if ok else None, "split_at_mut: mid <= len")
            if ok:
                rest = from_lin(lin_add(to_lin(ln), to_lin(args[1]), -1))
                return [(w2, ('tuple', (('slc', 'head', args[1]), ('slc', 'tail', rest))))]
            w2, h = self.mk_slc(w2, 'head', None, ci)
            w2, t_ = self.mk_slc(w2, 'tail', None, ci)
            return [(w2, ('tuple', (h, t_)))]
        if p == 'core::ptr::copy_nonoverlapping' or p.endswith('slice::raw::from_raw_parts_mut') or p == 'core::ptr::mut_ptr::<impl *mut T>::add':
            s = self.site(fn, 'raw', name, ci.span, ci.bb)
            s.verdicts.add('contract:caller')       # justified by the enclosing `unsafe fn`'s documented precondition
            return None
        # ---- options
        if p.endswith('Option::<T>::unwrap_unchecked') or p == 'core::option::Option::unwrap_unchecked':
            site = self.site(fn, 'unwrap_unchecked', 'some', ci.span, ci.bb)
            a = args[0]
            if a[0] == 'adt' and a[1] == OPTION and a[2] == 1:
                site.verdicts.add('discharged')
                return [(w, a[3][0])]
            site.verdicts.add('undischarged')
            site.goals.append("the Option is not known to be Some [%s]" % self.ctx)
            if a[0] == 'adt' and a[1] == OPTION and a[2] == 0:
                return []
            w, at = self.new_atom(w, 'unwrapped', ci)
            return [(w, ('sym', at))]
        # ---- helper contracts (verified separately in check_helper_contracts)
        if rp.endswith('utils::char_byte_index'):
            ln = self.slc_len(I, w, args[0])
            k_ = L(args[1])
            if k_ is not None and any(a.startswith(BYTE_UNIT) for a, c_ in k_[0]):
                rec = (fn.npath, 'character index given to char_byte_index', (), tuple(a for a, c_ in k_[0] if a.startswith(BYTE_UNIT)))
                if rec not in self.mixed:
                    self.mixed.append(rec)
            w0 = w
            w, a = self.new_atom(w, 'byteidx', ci)
            facts = []
            if ln is not None and L(ln) is not None:
                facts.append(fm.lt(fm.lin_atom(a), L(ln)))
            if L(args[1]) is not None:
                facts.append(fm.le(L(args[1]), fm.lin_atom(a)))       # k <= p: every scalar is at least one byte
            return [(w0, none()), (self.add(w, *facts), some(('sym', a)))]
        if rp.endswith('utils::char_count'):
            ln = self.slc_len(I, w, args[0])
            w, a = self.new_atom(w, 'chars', ci)
            facts = [fm.le(fm.lin_atom(a), L(ln))] if ln is not None and L(ln) is not None else []
            return [(self.add(w, *facts), ('sym', a))]
        if rp.endswith('utils::common_prefix_len'):
            w, a = self.new_atom(w, 'prefix', ci)
            facts = []
            for x in args[:2]:
                ln = self.slc_len(I, w, x)
                if ln is not None and L(ln) is not None:
                    facts.append(fm.le(fm.lin_atom(a), L(ln)))
            return [(self.add(w, *facts), ('sym', a))]
        if rp.endswith('utils::char_pop_front'):
            ln = self.slc_len(I, w, args[0])
            w2, rest = self.sym_of_type(w, {'k': 'ref', 'to': {'k': 'str'}}, ci, 'rest')
            sv = some(('tuple', (TOP, rest)))
            if ln is not None and L(ln) is not None:
                w2 = self.add(w2, fm.lt(L(rest[2]), L(ln)))
                if self.prove(w, fm.le(fm.lin_const(1), L(ln))):
                    return [(w2, sv)]                       # non-empty text: one scalar and the rest
                if self.prove(w, fm.le(L(ln), fm.lin_const(0))):
                    return [(w, none())]
                return [(self.add(w, fm.le(L(ln), fm.lin_const(0))), none()), (self.add(w2, fm.le(fm.lin_const(1), L(ln))), sv)]
            return [(w, none()), (w2, sv)]
        if rp.endswith('utils::trim_start'):
            ln = self.slc_len(I, w, args[0])
            w, a = self.new_atom(w, 'len(trimmed)', ci)
            facts = [fm.le(fm.lin_atom(a), L(ln))] if ln is not None and L(ln) is not None else []
            return [(self.add(w, *facts), ('slc', 'trimmed', ('sym', a)))]
        if ci.name in ('eq', 'ne') and tr == 'core::cmp::PartialEq' and len(args) == 2:
            vals = []
            for a in args:
                for _ in range(3):
                    if a[0] == 'ref':
                        a = I.read(w, a[1])
                vals.append(a)
            tags = [v[1] if v[0] == 'slc' else None for v in vals]
            if all(t is not None for t in tags):
                hs = [t for t in tags if t.split('!')[0].split('^')[0] == 'H']
                if hs and len(hs) == 1:
                    self.h_compares.append((fn.npath, ci.span, hs[0], self.ctx))
            return None
        if p == 'core::str::<impl str>::starts_with' and len(args) == 2:
            la, lb = self.slc_len(I, w, args[0]), self.slc_len(I, w, args[1])
            facts = []
            if la is not None and lb is not None and L(la) is not None and L(lb) is not None:
                facts.append(fm.le(L(lb), L(la)))
            return [(self.add(w, *facts), TRUE), (w, FALSE)]
        if name in ('unwrap', 'expect', 'unwrap_err', 'expect_err') and (p.startswith('core::option::') or p.startswith('core::result::')):
            site = self.site(fn, 'panic', name, ci.span, ci.bb)
            a = args[0]
            ok_variant = {'unwrap': 1, 'expect': 1}.get(name) if p.startswith('core::option::') else {'unwrap': 0, 'expect': 0, 'unwrap_err': 1, 'expect_err': 1}.get(name)
            if a[0] == 'adt' and a[2] == ok_variant:
                site.verdicts.add('discharged')
                return [(w, a[3][0])]
            site.verdicts.add('undischarged')
            site.goals.append("%s() on a value not known to be the non-panicking variant [%s]" % (name, self.ctx))
            return None
        if p.startswith('core::panicking::'):
            site = self.site(fn, 'panic', name, ci.span, ci.bb)
            site.verdicts.add('reached')
            site.goals.append("a panicking call is reachable [%s]" % self.ctx)
            return []
        return None

    def u4_record(self, fn, kind, name, ci, ok_, detail):
        key = "%s|%s|%s|%s" % (fn.npath, kind, name, ci.span.split(':')[-2] if False else self._ord(fn, ci))
        self.u4.setdefault(key, []).append((ok_, detail, self.ctx, ci.span))

    def _ord(self, fn, ci):
        n = 0
        for i, b in enumerate(fn.blocks):
            t = b['term']
            if t['k'] == 'call' and t['func'].get('path') == ci.path:
                if i == ci.bb:
                    break
                n += 1
        return "#%d" % n

    def counter_facts(self, I, w, fn, ci, lens, some_branch):
        """counter lemma at the loop's `next`: counters of the enclosing loop are < len (Some) / <= len (None)"""
        info = cfg_of(fn)
        lp = None
        for h, l in info['loops'].items():
            if ci.bb in l['body']:
                lp = l
        if lp is None:
            return w
        facts = []
        for c in lp['counters']:
            v = w.store.get((ci.depth, c))
            if v is None:
                continue
            lv = L(v)
            if lv is None:
                continue
            for ln in lens:
                if ln is None or L(ln) is None:
                    continue
                facts.append(fm.lt(lv, L(ln)) if some_branch else fm.le(lv, L(ln)))
        if facts and not self.feasible(w, facts):
            return self.add(w)      # first iteration with a constant counter: facts are about the atom only
        return self.add(w, *facts)


# ---------------------------------------------------------------------------------------------
# inventory of obligation sites taken from the MIR (independent of the analysis)

CONTRACT_NAMES = ('get_unchecked', 'get_unchecked_mut', 'unwrap_unchecked', 'copy_within', 'index', 'index_mut')


def skip_fn(f):
    if f.expn and 'Derive' in f.expn:
        return True
    if (f.impl_trait or '').endswith('fmt::Debug'):
        return True
    if 'input::_::' in f.path or f.path.startswith('<input::_'):
        return True       # bitflags-generated helpers: not written in this repository
    return False


def inventory(lib):
    inv = {}
    for f in lib.lib_fns():
        if skip_fn(f):
            continue
        for bi, b in enumerate(f.blocks):
            if b['cleanup']:
                continue
            t = b['term']
            if t['k'] == 'assert':
                m = t['msg']
                kind = 'bounds|index' if m['kind'] == 'BoundsCheck' else 'overflow|%s' % m.get('op')
                inv["%s|%s|bb%d" % (f.npath, kind, bi)] = t['span']
            elif t['k'] == 'call':
                p = F.norm_path(t['func'].get('path')) or ''
                rp = F.norm_path(t['func'].get('resolved')) or ''
                nm = t['func'].get('name')
                if nm in ('index', 'index_mut', 'get_unchecked', 'get_unchecked_mut') and (
                        p.startswith('core::ops::index::') or p.startswith('core::slice::') or p.startswith('core::str::')):
                    inv["%s|range|%s|bb%d" % (f.npath, nm, bi)] = t['span']
                elif p == 'core::slice::<impl [T]>::copy_within':
                    inv["%s|copy_within|src+dest|bb%d" % (f.npath, bi)] = t['span']
                elif rp.endswith('utils::copy_nonoverlapping'):
                    inv["%s|copy_nonoverlapping|len|bb%d" % (f.npath, bi)] = t['span']
                elif rp.endswith('utils::split_at_mut'):
                    inv["%s|split_at_mut|mid|bb%d" % (f.npath, bi)] = t['span']
                elif nm == 'unwrap_unchecked':
                    inv["%s|unwrap_unchecked|some|bb%d" % (f.npath, bi)] = t['span']
                elif nm in ('unwrap', 'expect', 'unwrap_err', 'expect_err') and (p.startswith('core::option::') or p.startswith('core::result::')):
                    inv["%s|panic|%s|bb%d" % (f.npath, nm, bi)] = t['span']
                elif p.startswith('core::panicking::'):
                    inv["%s|panic|%s|bb%d" % (f.npath, nm, bi)] = t['span']
    # stable keys: ordinal among same (function, kind, detail) instead of the block number
    out, keymap, count = {}, {}, {}
    def bbnum(k):
        return int(k.rsplit('|bb', 1)[1])
    for k in sorted(inv, key=lambda k: (k.rsplit('|bb', 1)[0], bbnum(k))):
        stem = k.rsplit('|bb', 1)[0]
        n = count.get(stem, 0)
        count[stem] = n + 1
        nk = "%s|#%d" % (stem, n)
        out[nk] = inv[k]
        keymap[k] = nk
    return out, keymap


# ---------------------------------------------------------------------------------------------
# entry states

def sym_args(rule, f, self_val=None):
    args = []
    facts = []
    for i in range(1, f.body['arg_count'] + 1):
        ty = f.body['locals'][i]['ty']
        nm = f.body['locals'][i]['name'] or ('arg%d' % i)
        t = ty
        while t.get('k') == 'ref':
            t = t['to']
        if i == 1 and self_val is not None:
            args.append(self_val)
        elif ty.get('k') == 'ref' and t.get('k') in ('str', 'slice'):
            args.append(('slc', nm, ('sym', 'len(%s)' % nm)))
        elif ty.get('k') == 'int' and ty['w'] >= 32 and not ty['signed']:
            args.append(('sym', nm))
        elif ty.get('k') == 'int' and ty['w'] == 8:
            args.append(mk_int(range(256)))
        elif ty.get('k') == 'adt' and rule.lib.adts_n.get(F.norm_path(ty['path'])) \
                and len(rule.lib.adts_n[F.norm_path(ty['path'])]['variants']) == 1:
            a = rule.lib.adts_n[F.norm_path(ty['path'])]
            fs = []
            for fd in a['variants'][0]['fields']:
                ft = fd['ty']
                if ft.get('k') == 'ref' and ft['to'].get('k') in ('str', 'slice'):
                    fs.append(('slc', '%s.%s' % (nm, fd['name']), ('sym', 'len(%s.%s)' % (nm, fd['name']))))
                else:
                    fs.append(TOP)
            args.append(('adt', F.norm_path(ty['path']), 0, tuple(fs)))
        else:
            args.append(TOP)
    return args, facts


def editor_entries(I):
    ed = I.make_adt('editor::Editor', buffer=('bufobj', 'B'), cursor=('sym', 'cursor0'), valid=('sym', 'valid0'))
    facts = frozenset([fm.le(fm.lin_atom('valid0'), fm.lin_atom('cap(B)')), fm.le(fm.lin_atom('cursor0'), fm.lin_atom('valid0'))])
    return [('', ed, facts)]


def editor_invariant(rule, I, w, v):
    ci, vi = I.field_index('editor::Editor', 'cursor'), I.field_index('editor::Editor', 'valid')
    c, va = L(v[3][ci]), L(v[3][vi])
    if c is None or va is None:
        return False, "cursor/valid not linear (%s, %s)" % (v[3][ci][:2], v[3][vi][:2])
    g1 = fm.le(va, fm.lin_atom('cap(B)'))
    g2 = fm.le(c, va)
    if not rule.prove(w, g1):
        return False, "valid <= len(buffer) not re-established: " + fm.fmt(g1)
    if not rule.prove(w, g2):
        return False, "cursor <= valid not re-established: " + fm.fmt(g2)
    return True, ''


def history_entries(I):
    out = []
    base_f = [fm.le(fm.lin_atom('used0'), fm.lin_atom('cap(H)'))]
    h0 = I.make_adt('history::History', buffer=('bufobj', 'H'), cursor=none(), used=('sym', 'used0'))
    out.append(('cursor=None', h0, frozenset(base_f)))
    h1 = I.make_adt('history::History', buffer=('bufobj', 'H'), cursor=some(('sym', 'hc0')), used=('sym', 'used0'))
    out.append(('cursor=Some', h1, frozenset(base_f + [fm.lt(fm.lin_atom('hc0'), fm.lin_atom('used0'))])))
    return out


def history_invariant(rule, I, w, v):
    ci, ui = I.field_index('history::History', 'cursor'), I.field_index('history::History', 'used')
    u = L(v[3][ui])
    if u is None:
        return False, "used not linear (%s)" % (v[3][ui][:2],)
    if not rule.prove(w, fm.le(u, fm.lin_atom('cap(H)'))):
        return False, "used <= len(buffer) not re-established"
    c = v[3][ci]
    if c[0] == 'adt' and c[2] == 1:
        cv = L(c[3][0])
        if cv is None or not rule.prove(w, fm.lt(cv, u)):
            return False, "cursor = Some(c) with c < used not re-established (c = %s)" % (c[3][0][:3],)
    elif c[0] == 'optsym':
        if not rule.prove(w, fm.lt(fm.lin_atom(c[1]), u)):
            return False, "cursor = Some(c) with c < used not re-established (loop atom)"
    elif c[0] != 'adt':
        return False, "cursor not a definite Option"
    return True, ''


def autocompletion_entries(I):
    out = []
    buf = ('slc', 'acbuf', ('sym', 'len(acbuf)'))
    a0 = I.make_adt('autocomplete::Autocompletion', autocompleted=none(), buffer=buf, partial=BOOL)
    out.append(('None', a0, frozenset()))
    a1 = I.make_adt('autocomplete::Autocompletion', autocompleted=some(('sym', 'ac0')), buffer=buf, partial=BOOL)
    out.append(('Some', a1, frozenset([fm.le(fm.lin_atom('ac0'), fm.lin_atom('len(acbuf)'))])))
    return out


def autocompletion_invariant(rule, I, w, v):
    ai = I.field_index('autocomplete::Autocompletion', 'autocompleted')
    a = v[3][ai]
    if a[0] == 'adt' and a[2] == 1:
        av = L(a[3][0])
        if av is None or not rule.prove(w, fm.le(av, fm.lin_atom('len(acbuf)'))):
            return False, "autocompleted = Some(n) with n <= len(buffer) not re-established"
    return True, ''


def invariant_facts(I, adt, v):
    """the struct invariant as facts about the (symbolic) field values of v"""
    out = []
    if adt == 'editor::Editor':
        c, va = L(v[3][I.field_index(adt, 'cursor')]), L(v[3][I.field_index(adt, 'valid')])
        if va is not None:
            out.append(fm.le(va, fm.lin_atom('cap(B)')))
            if c is not None:
                out.append(fm.le(c, va))
    elif adt == 'history::History':
        u = L(v[3][I.field_index(adt, 'used')])
        c = v[3][I.field_index(adt, 'cursor')]
        if u is not None:
            out.append(fm.le(u, fm.lin_atom('cap(H)')))
            cv = None
            if c[0] == 'optsym':
                cv = fm.lin_atom(c[1])
            elif c[0] == 'adt' and c[2] == 1:
                cv = L(c[3][0])
            if cv is not None:
                out.append(fm.lt(cv, u))
    elif adt == 'autocomplete::Autocompletion':
        a = v[3][I.field_index(adt, 'autocompleted')]
        av = fm.lin_atom(a[1]) if a[0] == 'optsym' else (L(a[3][0]) if a[0] == 'adt' and a[2] == 1 else None)
        if av is not None:
            out.append(fm.le(av, fm.lin_atom('len(acbuf)')))
    return out


STRUCTS = {
    'editor::Editor': (editor_entries, editor_invariant),
    'history::History': (history_entries, history_invariant),
    'autocomplete::Autocompletion': (autocompletion_entries, autocompletion_invariant),
}


PRECONDITIONS = {
    # `# Safety` contracts of the crate's unsafe helpers; they are the obligations generated at every call site
    'utils::copy_nonoverlapping': lambda a: [fm.le(L(a[2]), L(a[0][2])), fm.le(L(a[2]), L(a[1][2]))],
    'utils::split_at_mut': lambda a: [fm.le(L(a[1]), L(a[0][2]))],
}


def generic_self(I, f, sa):
    """symbolic receiver for methods of types without a declared invariant: str/slice fields get a length atom"""
    a = I.adts.get(sa)
    if a is None or a['kind'] != 'struct':
        return None
    vals = {}
    for fd in a['variants'][0]['fields']:
        ty = fd['ty']
        t = ty
        while t.get('k') == 'ref':
            t = t['to']
        if ty.get('k') == 'ref' and t.get('k') in ('str', 'slice'):
            vals[fd['name']] = ('slc', 'self.' + fd['name'], ('sym', 'len(self.%s)' % fd['name']))
        elif ty.get('k') == 'int' and ty['w'] >= 32 and not ty['signed']:
            vals[fd['name']] = ('sym', 'self.' + fd['name'])
        elif ty.get('k') == 'bool':
            vals[fd['name']] = BOOL
    return I.make_adt(sa, **vals)


def condition_holds(lib, entry):
    c = entry.get('condition')
    if not c:
        return True
    if 'only_generic_arg' in c:
        fn_np, want = c['only_generic_arg']
        n = 0
        for g in lib.lib_fns():
            for b in g.blocks:
                t = b['term']
                if t['k'] == 'call' and F.norm_path(t['func'].get('resolved') or t['func'].get('path') or '') == fn_np:
                    n += 1
                    gs = [F.norm_path(x.get('path')) for x in t['func'].get('gargs', []) if x.get('k') == 'adt']
                    if want not in gs:
                        return False
        # no instantiation at all (the only caller is compiled out with a feature): the function is dead code here
        return True
    return False


def load_assumed():
    p = os.path.join(F.VERIF, 'specs', 'assumed.json')
    if not os.path.exists(p):
        return {}
    with open(p) as f:
        return {a['site']: a for a in json.load(f)['assumed']}


def analyse(lib, res, cfg):
    sites = {}
    assumed = load_assumed()
    rule = E3(lib, sites, assumed)
    inv, keymap = inventory(lib)
    rule.keymap = keymap
    n_ctx = 0
    analysed = set()
    # Module-private, loop-free methods of the invariant-carrying types that are called by other methods of the same type
    # are inlined into those callers (inline_ok) and their obligations judged there, with the caller's facts; analysing them
    # alone as well would judge them for argument values no caller passes.  (A private helper that is never reached from an
    # analysed caller stays `unvisited`, which is a violation.)
    private_inlined = set()
    by_np = {x.npath: x for x in lib.lib_fns()}
    for g in lib.lib_fns():
        for b in g.blocks:
            t = b['term']
            if t['k'] != 'call':
                continue
            cal = by_np.get(F.norm_path(t['func'].get('resolved') or t['func'].get('path') or ''))
            if cal is None or cal.npath == g.npath or cal.vis != 'restricted' or cal.kind != 'AssocFn':
                continue
            if base.self_adt(cal) in STRUCTS and base.self_adt(cal) == base.self_adt(g) and not cfg_of(cal)['back']:
                private_inlined.add(cal.npath)
    for passno, f in [(0, x) for x in lib.lib_fns()] + [(1, x) for x in lib.lib_fns()]:
        if skip_fn(f):
            continue
        has_sites = any(k.startswith(f.npath + '|') for k in inv)
        sa = base.self_adt(f)
        is_method = f.body['arg_count'] >= 1 and f.body['locals'][1]['ty'].get('k') == 'ref' and sa in STRUCTS \
            and F.norm_path(f.body['locals'][1]['ty']['to'].get('path')) == sa
        if not has_sites and not (is_method and f.body['locals'][1]['ty'].get('mut')):
            continue
        if f.kind == 'Closure':
            if passno == 0:
                continue      # closures are analysed where they are called (Option::map, position, ...)
            if any(k.startswith(f.npath + '|') and k in sites for k in inv):
                continue      # ... this one was
        elif passno == 1:
            continue
        if sa in ('utf8::Utf8Accum',) or f.npath in VALUE_SET_FNS:
            continue          # value-set domain, see check_value_set
        if f.npath in private_inlined:
            continue          # judged in the context of each caller (see below)
        entries = [('', None, frozenset())]
        if is_method:
            entries = STRUCTS[sa][0](Interp([lib], rule))
        elif sa and f.body['arg_count'] >= 1 and f.body['locals'][1]['ty'].get('k') == 'ref' \
                and F.norm_path(f.body['locals'][1]['ty']['to'].get('path')) == sa:
            gs = generic_self(Interp([lib], rule), f, sa)
            if gs is not None:
                entries = [('', gs, frozenset())]
        for label, selfv, facts in entries:
            I = Interp([lib], rule, max_worlds=60000)
            rule.ctx = "%s%s" % (f.npath, (' ' + label) if label else '')
            store = {}
            self_arg = None
            if selfv is not None:
                store[(-1, 0)] = selfv
                self_arg = ('ref', (-1, 0, ()))
            args, _ = sym_args(rule, f, self_arg)
            if f.npath in PRECONDITIONS:
                try:
                    facts = frozenset(facts) | frozenset(PRECONDITIONS[f.npath](args))
                except (TypeError, IndexError):
                    pass
            try:
                exits = I.run(f, args, facts, store)
            except Inconclusive as e:
                res.add_violation(dict(rule='C03.inconclusive', key="C03|inconclusive|%s" % f.npath,
                                       msg="%s: analysis did not converge (%s)" % (f.npath, e)))
                continue
            n_ctx += 1
            analysed.add(f.npath)
            if is_method and f.body['locals'][1]['ty'].get('mut'):
                for w, rv in exits:
                    good, why = STRUCTS[sa][1](rule, I, w, w.store[(-1, 0)])
                    res.oblige("inv|%s|%s|%s" % (cfg, rule.ctx, why), good, violation=None if good else dict(
                        rule='C03.invariant', key="C03|invariant|%s" % f.npath,
                        msg="%s [%s]: struct invariant not preserved at an exit: %s" % (f.npath, label, why)))
    return rule, sites, inv, n_ctx, analysed


VALUE_SET_FNS = {'utils::encode_utf8'}


def infeasible_only(rule, lib, key, rev_keymap):
    """Is the (never visited) site's block cut off from everything the analysis entered only by branches it refuted?
    Let E be the blocks some world entered.  Every edge X -> Y with X in E, Y not in E from which the site's block can be
    reached (through blocks outside E) must have been pruned as infeasible under the path facts - and there must be at
    least one such edge.  Otherwise the block is unreached for another reason (a path that died, a loop that was cut) and
    nothing can be said about it."""
    raw = rev_keymap.get(key)
    if raw is None:
        return False
    fnp = key.split('|')[0]
    try:
        bb = int(raw.rsplit('|bb', 1)[1])
        f = lib.fn(fnp)
    except (IndexError, ValueError, KeyError):
        return False
    pruned = rule.pruned.get(fnp, set())
    entered = rule.entered.get(fnp)
    if not pruned or not entered or bb in entered:
        return False
    succ = {}
    for i, b_ in enumerate(f.blocks):
        t = b_['term']
        if b_['cleanup']:
            succ[i] = []
        elif t['k'] == 'switch':
            succ[i] = list(t['targets']) + [t['otherwise']]
        elif t.get('t') is not None:
            succ[i] = [t['t']]
        else:
            succ[i] = []

    def reaches(y):
        seen, work = {y}, [y]
        while work:
            x = work.pop()
            if x == bb:
                return True
            for z in succ.get(x, ()):
                if z not in seen and z not in entered:
                    seen.add(z)
                    work.append(z)
        return False
    frontier = [(x, y) for x in entered for y in succ.get(x, ()) if y not in entered and reaches(y)]
    return bool(frontier) and all(e in pruned for e in frontier)


def check_helper_contracts(lib, res, cfg, keymap):
    """The contracts of the scalar-counting helpers used above are themselves proved from their MIR (counter lemma):
       char_count(t) <= len(t);  char_byte_index(t, k) = Some(p) => p < len(t);  common_prefix_len(a, b) <= len(a), len(b)."""
    rule = E3(lib, {}, {})
    rule.keymap = keymap
    specs = {
        'utils::char_count': lambda args, rv: [(rv, args[0][2])],
        'utils::common_prefix_len': lambda args, rv: [(rv, args[0][2]), (rv, args[1][2])],
    }
    for np_, spec in specs.items():
        f = lib.fn(np_)
        I = Interp([lib], rule)
        rule.ctx = np_
        args, _ = sym_args(rule, f, None)
        for w, rv in I.run(f, args, frozenset(), {}):
            for lhs, rhs in spec(args, rv):
                a, b = L(lhs), L(rhs)
                good = a is not None and b is not None and rule.prove(w, fm.le(a, b))
                res.oblige("contract|%s|%s|%s" % (cfg, np_, str(rhs)[:30]), good, sample="%s: result <= %s" % (np_, rhs[1] if len(rhs) > 1 else rhs),
                           violation=None if good else dict(rule='C03.contract', key="C03|contract|%s" % np_,
                                                            msg="%s: cannot prove its result <= %s at an exit (value %s)" % (np_, rhs, lhs)))
    f = lib.fn('utils::char_byte_index')
    I = Interp([lib], rule)
    rule.ctx = f.npath
    args, _ = sym_args(rule, f, None)
    for w, rv in I.run(f, args, frozenset(), {}):
        if rv[0] == 'adt' and rv[1] == OPTION and rv[2] == 1:
            a, b = L(rv[3][0]), L(args[0][2])
            k = L(args[1])
            good = a is not None and rule.prove(w, fm.lt(a, b)) and k is not None and rule.prove(w, fm.le(k, a))
            res.oblige("contract|%s|char_byte_index|%s" % (cfg, str(rv[3][0])[:40]), good, violation=None if good else dict(
                rule='C03.contract', key="C03|contract|utils::char_byte_index",
                msg="utils::char_byte_index: cannot prove Some(p) => k <= p < len(text) at an exit (p = %s)" % (rv[3][0],)))


def check_value_set(lib, res, sites, cfg, keymap):
    """Obligations of the byte-level state machines, in the value-set domain: `Utf8Accum::push_byte` over every
    reachable state and byte class of its extracted transducer (C02), `encode_utf8` in the context of its callers
    (they pass a 4-byte array)."""
    from . import C02
    f, I0, classes, init, states, trans = C02.decoder_transducer(lib)

    class R(E3):
        def inline_ok(self, I, ci, body):
            return base.self_adt(body) == 'utf8::Utf8Accum' or body.npath == 'utils::encode_utf8'
    r2 = R(lib, sites, {})
    r2.keymap = keymap
    done = set()
    for s in states:
        for c in classes:
            I = Interp([lib], r2)
            r2.ctx = "push_byte over reachable decoder states"
            I.run(f, [('ref', (-1, 0, ())), ('int', c, None)], frozenset(), {(-1, 0): s})
    done.add(f.npath)
    # encode_utf8 in the context of every caller
    callers = [g for g in lib.lib_fns() if any(
        b['term']['k'] == 'call' and (b['term']['func'].get('resolved') or '').endswith('utils::encode_utf8') for b in g.blocks)]
    if not callers:
        raise KeyError("utils::encode_utf8 has no caller")
    for g in callers:
        I = Interp([lib], r2, max_worlds=100000)
        r2.ctx = "encode_utf8 in %s" % g.npath
        args, _ = sym_args(r2, g, TOP)
        I.run(g, args, frozenset(), {})
    done.add('utils::encode_utf8')
    return done


def check_witnesses(res, lib):
    """Encapsulation the analyses assume (user code cannot reach the state the unchecked operations rely on), decided by
    rustc: compile-fail doc tests with compiling twins (fixtures/witness)."""
    from .. import witness
    results, out = witness.run(lib)
    nw = 0
    for name, kind, ok, detail in sorted(results):
        if kind == 'witness':
            nw += 1
            res.oblige("W|%s" % name, ok, sample="witness %s: application code does not compile" % name, violation=None if ok else dict(
                rule='C03.encapsulation', key="C03|encapsulation|%s" % name,
                msg="compile-fail witness %s (fixtures/witness/src/lib.rs, %s) now compiles: application code can reach state whose "
                    "invariants the library's unchecked operations rely on" % (name, detail)))
        else:
            res.oblige("W|twin|%s" % name, ok, violation=None if ok else dict(
                rule='ANCHOR', key="C03|witness-twin|%s" % name,
                msg="the compiling twin of witness %s no longer compiles (%s): the witness would pass for the wrong reason" % (name, detail)))
    if nw < 9:
        raise KeyError("only %d compile-fail witnesses ran" % nw)
    res.extra['witnesses'] = sorted("%s/%s: %s" % (n, k, 'ok' if o else 'FAILED') for n, k, o, d in results)


def run(ctx, res):
    from .. import absint
    old = absint.WIDEN_AT
    absint.WIDEN_AT = 16      # small counters (lengths 1..4 of UTF-8 sequences) stay exact in the value-set domain
    try:
        run_(ctx, res)
        check_witnesses(res, lib_crate(ctx.crates('default')))
    finally:
        absint.WIDEN_AT = old


def run_(ctx, res):
    res.explanation = __doc__
    res.rule_text = ("one obligation per MIR site (Assert terminator / unchecked or panicking call) with a verdict over all analysed "
                     "contexts, plus one per (method, entry state, exit) for the inductive struct invariants")
    cfgs = ctx.feature_configs() if ctx.tier == 'thorough' else ['default']
    for cfg in cfgs:
        lib = lib_crate(ctx.crates(cfg))
        rule, sites, inv, n_ctx, analysed = analyse(lib, res, cfg)
        analysed |= check_value_set(lib, res, sites, cfg, rule.keymap)
        check_helper_contracts(lib, res, cfg, rule.keymap)
        assumed = rule.assumed
        verdicts = {'discharged': 0, 'assumed': 0, 'delegated': 0}
        from . import C07
        try:
            lemma = C07.slack_lemma(lib)
        except KeyError as e:
            lemma = (False, str(e), 'token::Tokens::new')
        tok_fn = lemma[2]
        res.extra['slack_lemma_%s' % cfg] = "%s: %s" % ('holds' if lemma[0] else 'FAILS', lemma[1][:300])
        # Assumed entries are keyed by function name.  When a function was renamed its entry would be orphaned and the
        # site reported: an orphaned entry (its function no longer exists) may stand for a not-otherwise-assumed site of the
        # same type, kind and detail, provided orphans and such sites pair up one to one.
        def group(k):
            fn_, kind_, det_ = k.split('|')[:3]
            owner = fn_.rsplit('::', 1)[0] if '::' in fn_ else fn_
            return owner.split('::{closure')[0], kind_, det_
        inv_fns = {k.split('|')[0] for k in inv}
        orphans = {}
        for k_, e_ in assumed.items():
            if k_.split('|')[0] not in inv_fns:
                orphans.setdefault(group(k_), []).append(e_)
        rename_ok = {}

        def verdict_of(key):
            s_ = sites.get(key)
            vs_ = s_.verdicts if s_ else set()
            return 'undischarged' if ('undischarged' in vs_ or 'reached' in vs_) else ('discharged' if vs_ else 'unvisited')
        for g_, es_ in orphans.items():
            cands = [k for k in sorted(inv) if group(k) == g_ and k not in assumed and verdict_of(k) == 'undischarged']
            if len(cands) == len(es_):
                for k, e_ in zip(cands, es_):
                    rename_ok[k] = e_
        rev_keymap = {v_: k_ for k_, v_ in rule.keymap.items()}
        for key in sorted(inv):
            s = sites.get(key)
            fnp = key.split('|')[0]
            vs = s.verdicts if s else set()
            if not vs and fnp.split('::{closure')[0] in analysed and fnp in PRECONDITIONS and key.split('|')[1] == 'panic':
                # the failing arm of a `debug_assert!` that restates the helper's `# Safety` contract: the contract is a
                # fact inside the helper (and an obligation at each of its call sites), so the arm is pruned as infeasible
                verdict = 'discharged'
            elif not vs and infeasible_only(rule, lib, key, rev_keymap):
                # e.g. the failing arm of a `debug_assert!` whose condition follows from the struct invariant: every way
                # into the block leads through a branch the path facts refute
                verdict = 'discharged'
            elif not vs:
                verdict = 'unvisited'
            elif 'undischarged' in vs or 'reached' in vs:
                verdict = 'undischarged'
            else:
                verdict = 'discharged'
            if verdict == 'undischarged' and (fnp == tok_fn or fnp.startswith(tok_fn + '::')) and lemma[0] \
                    and key.split('|')[1] in ('bounds', 'overflow', 'range') and key.split('|')[2] in ('index', 'Add', 'get_unchecked', 'get_unchecked_mut'):
                # the tokenizer's output cursor: discharged by the slack lemma proved on its extracted transducer (C07)
                verdict = 'discharged'
                res.extra.setdefault('by_slack_lemma_%s' % cfg, []).append(key)
            entry = assumed.get(key) or rename_ok.get(key)
            if verdict != 'discharged' and entry is not None and condition_holds(lib, entry):
                verdicts['assumed'] += 1
                res.assumed.append("%s — %s%s" % (key, entry['invariant'], '' if key in assumed else ' [entry %s, function renamed]' % entry['site']))
                res.obligations += 1
                res.evaluations += 1
                res.distinct.add(cfg + '|' + key)
                continue
            good = verdict == 'discharged'
            why = "; ".join(s.goals[:2]) if s and s.goals else verdict
            res.oblige("%s|%s" % (cfg, key), good, sample="%s: %s" % (key, verdict), violation=None if good else dict(
                rule='C03.' + verdict, key="C03|%s" % key,
                msg="%s at %s: %s — %s" % (key, inv[key], verdict, why)))
            if good:
                verdicts['discharged'] += 1
        res.extra['sites_%s' % cfg] = dict(total=len(inv), **verdicts)
        res.extra['contexts_%s' % cfg] = n_ctx
        floor = 120 if cfg == 'default' else 60       # history alone accounts for about 40 of the sites
        if len(inv) < floor:
            raise KeyError("only %d obligation sites found in the MIR inventory of %s (counted by hand: 165 with all features)" % (len(inv), cfg))
    res.exhaustive = True
