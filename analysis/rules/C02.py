"""C02 — all text handed out is well-formed UTF-8, whatever bytes arrive.

Decided clauses:
 U1 (exact, all byte streams) the scalar decoder (`Utf8Accum`'s byte-accepting method) is extracted as a finite
    transducer by abstract interpretation over byte classes (rules/fsm.py) and compared with Unicode Table 3-7:
    in every reachable state and for every input byte, an emitted string is exactly one well-formed scalar;
 U2 resynchronisation: from every reachable state, feeding any well-formed sequence yields nothing on all but its
    last byte and exactly that sequence on the last ("well-formed characters that follow are still accepted");
 U3 the decoder's answer is a function of (state, byte) only.
 U4 every unchecked construction of text elsewhere in the library (`from_utf8_unchecked[_mut]` over a byte sub-slice,
    `str::get_unchecked`) is classified by the *provenance of its indices* in the linear domain shared with C03: each
    end of the range must be, by construction, a position between two scalars — 0, the length of a `&str`, the index
    of an ASCII byte found by a search whose predicate is evaluated abstractly (plus one byte per such delimiter), a
    result of `char_byte_index` / `common_prefix_len`, or a struct field that holds such a position inductively
    (`Editor.valid`, `History.used/cursor`, `Autocompletion.autocompleted`: every exit of every `&mut self` method must
    leave them boundary-formed); the tokenizer's in-place result is discharged by its extracted transducer (every byte
    >= 0x80 is emitted exactly once, in order; only ASCII bytes are dropped or inserted); `from_u32_unchecked` is C17.B.
The sub-slice indices produced by the scalar-counting helpers are character boundaries by U2 and C17.D (imported: the
helpers' loops step their counters, and `common_prefix_len` snaps its result, exactly where the decoder completes a scalar).
"""
import os
import sys
from .. import facts as F
from ..absint import Interp, TOP, OPTION, none, some, const_int, int_singleton, Inconclusive
from .. import fsm
from .common import lib_crate
from . import C14 as base

sys.path.insert(0, F.VERIF)
from specs import utf8 as spec  # noqa: E402

LEVEL = "other"
IMPORTS = [
    ("C17", ("C17.counting",), "U4 takes the results of `char_byte_index` / `common_prefix_len` for positions between two scalars: their loops must step / snap exactly where the scalar decoder completes a character"),
    ("C14", ("C14.reset", "C14.atomic"), "after the in-place tokenisation the editor's length no longer describes well-formed text: a reset must precede every exit, or a later echo / Enter hands out a stale tail cut inside a character"),
]


class InlineLocal:
    """plain abstract interpretation: inline local bodies of the given self types, everything else opaque"""

    def __init__(self, adts):
        self.adts = adts

    def on_call(self, I, w, ci, args):
        return None

    def inline_ok(self, I, ci, body):
        if base.self_adt(body) in self.adts or (body.impl_trait or '').endswith('Default'):
            return True
        # free helper functions defined next to the type (same module), e.g. a table `second_octet_range(first)`
        mods = {a.rsplit('::', 1)[0] for a in self.adts}
        return body.kind == 'Fn' and base.self_adt(body) is None and body.npath.rsplit('::', 1)[0] in mods and not any(
            b['term']['k'] == 'call' and F.norm_path((b['term']['func'] or {}).get('path') or '') == body.npath for b in body.blocks)


def find_decoder(lib):
    c = [f for f in lib.lib_fns() if base.self_adt(f) == 'utf8::Utf8Accum' and f.kind == 'AssocFn' and f.impl_trait is None
         and f.body['arg_count'] == 2 and f.body['locals'][2]['ty'].get('k') == 'int' and f.body['locals'][2]['ty']['w'] == 8
         and F.norm_path(base.ret_ty(f).get('path')) == OPTION]
    if len(c) != 1:
        raise KeyError("Utf8Accum byte-accepting method: %d candidates" % len(c))
    return c[0]


def initial_state(I, lib):
    d = [f for f in lib.lib_fns() if base.self_adt(f) == 'utf8::Utf8Accum' and (f.impl_trait or '').endswith('Default')
         and f.name == 'default']
    if len(d) != 1:
        raise KeyError("Utf8Accum::default not found")
    ex = I.run(d[0], [], None, {})
    if len(ex) != 1:
        raise Inconclusive("Utf8Accum::default has %d abstract results" % len(ex))
    return ex[0][1]


def make_normalise(I):
    bi = I.field_index('utf8::Utf8Accum', 'buffer')
    pi = I.field_index('utf8::Utf8Accum', 'partial')

    ei = I.field_index('utf8::Utf8Accum', 'expected')

    def norm(I_, v):
        if v[0] != 'adt':
            return v
        fs = list(v[3])
        if fs[ei] == const_int(0):
            # nothing is pending: buffer and count are dead until the next lead byte rewrites them
            # (a read of either yields ⊤ and fails the checks / the state bound)
            fs[bi] = ('arr', (), TOP)
            fs[pi] = TOP
            return ('adt', v[1], v[2], tuple(fs))
        p = int_singleton(fs[pi]) if fs[pi][0] == 'int' else None
        buf = fs[bi]
        if buf[0] == 'arr' and p is not None:
            # cells at or beyond `partial` are dead: forget them (a read of one yields ⊤ and fails the checks)
            cells = tuple((i, x) for i, x in buf[1] if i < p)
            fs[bi] = ('arr', cells, TOP)
        return ('adt', v[1], v[2], tuple(fs))
    return norm


def render(I, w, rv):
    if rv[0] == 'adt' and rv[1] == OPTION:
        if rv[2] == 0:
            return 'None'
        s = rv[3][0]
        if s[0] == 'sliceref':
            st, ln = int_singleton(s[2]), int_singleton(s[3])
            if st is None or ln is None:
                return ('Some?', 'length not constant')
            seq = []
            for i in range(st, st + ln):
                v = I.read(w, s[1][:2] + (s[1][2] + (('i', i),),))
                if v[0] == 'int' and v[2] is None and v[1]:
                    seq.append(frozenset(v[1]))
                else:
                    seq.append(None)
            return ('Some', tuple(seq))
        return ('Some?', 'not a slice of the accumulator')
    return ('?', str(rv[:2]))


def shortest_words(states, trans, init):
    """BFS parents: state -> shortest class word reaching it"""
    word = {init: ()}
    work = [init]
    while work:
        nxt = []
        for s in work:
            for (s0, c), outs in trans.items():
                if s0 != s:
                    continue
                for ns, out in outs:
                    if ns not in word:
                        word[ns] = word[s] + (c,)
                        nxt.append(ns)
        work = nxt
    return word


def decoder_transducer(lib):
    rule = InlineLocal({'utf8::Utf8Accum'})
    I = Interp([lib], rule)
    f = find_decoder(lib)
    classes = fsm.partition_at(fsm.int_cuts(fsm.with_callees(lib, [f])) | spec.boundaries())
    init = initial_state(I, lib)
    norm = make_normalise(I)
    states, trans = fsm.extract(I, f, init, classes, normalise=norm, render=render)
    return f, I, classes, norm(I, init), states, trans


def fmt_word(word):
    return " ".join("[%s]" % fsm.cls_name(c) for c in word)


def check_decoder(res, lib, cfg):
    f, I, classes, init, states, trans = decoder_transducer(lib)
    words = shortest_words(states, trans, init)
    res.extra['decoder'] = dict(function=f.npath, states=len(states), classes=[fsm.cls_name(c) for c in classes],
                                transitions=len(trans))
    nsome = 0
    bad_u1 = []
    bad_u2 = []
    for (s, c), outs in sorted(trans.items(), key=lambda kv: (len(words.get(kv[0][0], ())), fsm.cls_name(kv[0][1]))):
        pre = fmt_word(words.get(s, ()))
        # U3
        res.oblige("U3|%s|%s|%s" % (cfg, pre, fsm.cls_name(c)), len(outs) == 1, violation=None if len(outs) == 1 else dict(
            rule='C02.deterministic', key="C02|deterministic|%s" % f.npath,
            msg="%s: after %s the byte class [%s] has %d different abstract outcomes" % (f.npath, pre or 'start', fsm.cls_name(c), len(outs))))
        for ns, out in outs:
            if out == 'None':
                continue
            nsome += 1
            good = out[0] == 'Some' and all(x is not None for x in out[1]) and spec.in_L1(list(out[1]))
            shown = " ".join("[%s]" % (fsm.cls_name(x) if x else '⊤') for x in out[1]) if out[0] == 'Some' else str(out)
            res.oblige("U1|%s|%s|%s" % (cfg, pre, fsm.cls_name(c)), good,
                       sample="after %s byte [%s] -> emits %s" % (pre or 'start', fsm.cls_name(c), shown))
            if not good:
                bad_u1.append((pre, fsm.cls_name(c), shown))
    if nsome < 5:
        raise KeyError("decoder transducer emits in only %d transitions" % nsome)
    if bad_u1:
        pre, b, shown = bad_u1[0]
        res.add_violation(dict(
            rule='C02.ill-formed', key="C02|ill-formed|%s" % f.npath,
            msg="%s hands out ill-formed UTF-8 in %d (state, byte-class) transitions; shortest: after the input %s the byte [%s] "
                "makes it emit %s, which is not a scalar value of Unicode Table 3-7" % (f.npath, len(bad_u1), pre or '(start)', b, shown),
            examples=["%s + [%s] -> %s" % x for x in bad_u1[:40]], count=len(bad_u1)))
    # U2 resynchronisation
    seqs = spec.wellformed_class_sequences(classes)
    for s in states:
        pre = fmt_word(words.get(s, ()))
        for seq in seqs:
            cur = {s}
            good = True
            why = ''
            for i, c in enumerate(seq):
                nxt = set()
                for st in cur:
                    for ns, out in trans[(st, c)]:
                        if i < len(seq) - 1:
                            if out != 'None':
                                good = False
                                why = "emits %s before the sequence is complete" % (out,)
                        else:
                            if not (out[0] == 'Some' and tuple(out[1]) == tuple(seq)):
                                good = False
                                why = "emits %s instead of the sequence itself" % (
                                    'nothing' if out == 'None' else " ".join("[%s]" % (fsm.cls_name(x) if x else '⊤') for x in out[1]))
                        nxt.add(ns)
                cur = nxt
            res.oblige("U2|%s|%s|%s" % (cfg, pre, fmt_word(seq)), good)
            if not good:
                bad_u2.append((pre, fmt_word(seq), why))
    if bad_u2:
        bad_u2.sort(key=lambda x: (len(x[0]), len(x[1])))
        pre, sq, why = bad_u2[0]
        res.add_violation(dict(
            rule='C02.resync', key="C02|resync|%s" % f.npath,
            msg="%s does not resynchronise in %d (state, well-formed sequence) cases; shortest: after the input %s the well-formed "
                "sequence %s is not decoded: %s" % (f.npath, len(bad_u2), pre or '(start)', sq, why),
            examples=["%s then %s: %s" % x for x in bad_u2[:40]], count=len(bad_u2)))
    return f, I, classes, init, states, trans


def check_boundaries(ctx, res, lib):
    """U4"""
    from .. import absint
    from . import C03, C07
    from ..runner import Result
    old = absint.WIDEN_AT
    absint.WIDEN_AT = 16
    try:
        scratch = Result()
        rule, sites, inv, n_ctx, analysed = C03.analyse(lib, scratch, 'default')
    finally:
        absint.WIDEN_AT = old
    # the inventory of unchecked text constructions, from the MIR
    want = {}
    for f in lib.lib_fns():
        if C03.skip_fn(f) or base.self_adt(f) == 'utf8::Utf8Accum' or f.npath == 'utils::encode_utf8':
            continue
        cnt = {}
        for bi, b in enumerate(f.blocks):
            t = b['term']
            if t['k'] != 'call' or b['cleanup']:
                continue
            p = F.norm_path(t['func'].get('path')) or ''
            nm = t['func'].get('name')
            kind = None
            if p.startswith('core::str::converts::from_utf8_unchecked'):
                kind = 'from-bytes'
            elif p in ('core::str::<impl str>::get_unchecked', 'core::str::<impl str>::get_unchecked_mut'):
                kind = 'str-slice'
            if kind:
                k0 = (kind, nm, t['func'].get('path'))
                n = cnt.get(k0, 0)
                cnt[k0] = n + 1
                want["%s|%s|%s|#%d" % (f.npath, kind, nm, n)] = t['span']
    if len(want) < 15:
        raise KeyError("only %d unchecked text constructions found" % len(want))
    # tokenizer: discharged by the transducer property
    fn, I, trule, classes = C07.extract(lib)
    hi = [c for c in classes if min(c) >= 0x80]
    tok_ok = bool(hi) and all(
        all(C07.simplify(o) in (('BYTE',), ('SEP', 'BYTE')) for s2, o in outs)
        for (s_, c), outs in trule.trans.items() if c == hi[0])
    for key, span in sorted(want.items()):
        recs = rule.u4.get(key)
        if key.startswith('token::Tokens::new|from-bytes'):
            good = tok_ok
            why = "the tokenizer drops or duplicates a byte >= 0x80 in some state" if not tok_ok else ''
        elif not recs:
            good = False
            why = "site not reached by any analysed context"
        else:
            badr = [r for r in recs if not r[0]]
            good = not badr
            why = badr[0][1] if badr else ''
        res.oblige("U4|%s" % key, good, sample="U4 %s: boundary-formed" % key, violation=None if good else dict(
            rule='C02.boundary', key="C02|boundary|%s" % key,
            msg="%s at %s: text is built from bytes cut at a position that is not a scalar boundary by construction: %s" % (key, span, why)))
    # inductive boundary invariant of the struct fields
    for adt, entries_inv in C03.STRUCTS.items():
        for f in lib.lib_fns():
            if base.self_adt(f) != adt or f.kind != 'AssocFn' or f.impl_trait is not None:
                continue
            t1 = f.body['locals'][1]['ty'] if f.body['arg_count'] >= 1 else {}
            if not (t1.get('k') == 'ref' and t1.get('mut')):
                continue
            for label, selfv, facts in entries_inv[0](Interp([lib], rule)):
                I2 = Interp([lib], rule, max_worlds=60000)
                rule.ctx = f.npath
                args, _ = C03.sym_args(rule, f, ('ref', (-1, 0, ())))
                absint.WIDEN_AT = 16
                try:
                    exits = I2.run(f, args, facts, {(-1, 0): selfv})
                finally:
                    absint.WIDEN_AT = old
                for w, rv in exits:
                    v = w.store[(-1, 0)]
                    # History.used / cursor are element starts by the NUL-delimiting content invariant (cutting UTF-8 at an
                    # ASCII NUL is always a boundary); eviction arithmetic cancels into forms over the capacity, so they
                    # are not judged by atom provenance here (see C03's assumed NUL-termination invariant)
                    for fname in {'editor::Editor': ['valid'], 'history::History': [],
                                  'autocomplete::Autocompletion': ['autocompleted']}[adt]:
                        x = v[3][I2.field_index(adt, fname)]
                        if x[0] == 'adt' and x[1] == OPTION:
                            if x[2] == 0:
                                continue
                            x = x[3][0]
                        if x[0] == 'optsym':
                            continue
                        okb, why = C03.boundary_form(x, w.st)
                        res.oblige("U4.inv|%s|%s|%s" % (f.npath, fname, str(x)[:60]), okb, violation=None if okb else dict(
                            rule='C02.boundary-field', key="C02|boundary-field|%s|%s" % (f.npath, fname),
                            msg="%s can leave %s.%s = %s, which is not a scalar boundary by construction: %s" % (
                                f.npath, adt, fname, x, why)))


def run(ctx, res):
    res.explanation = __doc__
    res.rule_text = ("U1/U3: one obligation per (state, byte class) transition of the extracted transducer; U2: one per "
                     "(state, well-formed class sequence)")
    lib = lib_crate(ctx.crates('default'))
    check_decoder(res, lib, 'default')
    check_boundaries(ctx, res, lib)
    res.exhaustive = True
    res.trusted = ["rustc MIR", "ecli-mirdump", "analysis/absint.py + fsm.py", "specs/utf8.py (Unicode Table 3-7)"]
