"""C07 — tokenisation follows the documented quoting rules and can carry any string.

Decided (exact, all NUL-free lines of any length):
 T1 the loop of `Tokens::new` is extracted as a finite transducer by abstract interpretation over byte classes
    (state = the source variables live across the back edge; input = the byte loaded from the line at the loop
    index; output = the sequence of stores back into the same buffer: separator 0 / the input byte) and compared, by
    exploring the product to closure, with the reference of specs/tokenizer.py written from the statement;
    the `empty` flag returned when the line ends in any reachable state equals "no token was started".
    Bytes >= 0x80 are one class that is never special (UTF-8 is carried verbatim).
 T2 `TokensIter::next` splits at each separator: decision table over (exhausted?, separator found?).
 T3 every store goes to index `insert` and is followed by `insert += 1` before the next store (in-place, in order).
The round-trip law is a property of the reference (argued in specs/tokenizer.py); equivalence transfers it.
"""
import sys
from .. import facts as F
from ..absint import (Interp, TOP, OPTION, none, some, const_int, int_singleton, Inconclusive, World, UINT_ANY)
from .. import fsm
from .common import lib_crate, EventRule
from . import C14 as base
from . import session

sys.path.insert(0, F.VERIF)
from specs import tokenizer as ref  # noqa: E402

LEVEL = "other"
INPUT = ('sym', 'line')


class TokRule:
    """st = (state_at_head | None, cls | None, outputs)"""

    def __init__(self, fn, classes):
        self.fn = fn
        self.classes = classes
        self.named = {i for i, l in enumerate(fn.body['locals']) if l['name']}
        self.trans = {}      # (S, cls) -> set((S', outputs))
        self.starts = set()
        self.finals = {}     # S -> set(empty values) filled from exits
        self.problems = []
        self.nloads = 0
        self.nstores = 0

    def inline_ok(self, I, ci, body):
        # nested helper fns / closures of the tokenizer itself (e.g. a `push(bytes, &mut insert, b)` helper) are looked into
        if body.npath.startswith(self.fn.npath + '::') and not any(
                b['term']['k'] == 'call' and F.norm_path((b['term']['func'] or {}).get('path') or '') == body.npath for b in body.blocks):
            return True
        from .common import pure_helper
        return pure_helper(body, self.fn.npath.rsplit('::', 2)[0])       # free predicate helpers of the token module

    def index_name(self, I, w, depth, idx):
        """source-level name of the variable a store is indexed by; inside an inlined helper the index is a copy of
        `*r` with r a `&mut` to a variable of the tokenizer's own frame"""
        if depth == 0:
            return self.fn.body['locals'][idx]['name']
        cur = getattr(I, '_fn', None)
        if cur is None:
            return None
        nm = cur.body['locals'][idx]['name'] if idx < len(cur.body['locals']) else None
        for b in cur.blocks:
            for st in b['stmts']:
                if st['k'] == 'assign' and st['place']['l'] == idx and not st['place']['p'] and st['rv'].get('k') == 'use':
                    op = st['rv']['op']
                    if op.get('k') in ('copy', 'move') and any(e['k'] == 'deref' for e in op['place']['p']):
                        v = w.store.get((depth, op['place']['l']))
                        if v is not None and v[0] == 'ref' and v[1][0] == 0:
                            return self.fn.body['locals'][v[1][1]]['name']
        return nm

    def state_of(self, I, w, depth):
        items = []
        for (d, l), v in w.store.items():
            if d == depth and l in self.named and v != INPUT:
                nm = self.fn.body['locals'][l]['name']
                if v[0] == 'adt':
                    a = I.adts.get(v[1])
                    val = a['variants'][v[2]]['name'] if a else str(v[2])
                elif v[0] == 'int':
                    val = v
                else:
                    continue
                items.append((nm, val))
        return tuple(sorted(items, key=str))

    def base_is_input(self, I, w, depth, place):
        v = w.store.get((depth, place['l']), TOP)
        return v == INPUT

    def on_load(self, I, w, depth, place):
        if not self.base_is_input(I, w, depth, place):
            return None
        self.nloads += 1
        S, cls, outs = w.st
        if cls is not None:
            self.problems.append("the line is read twice in one iteration")
        return [(w.with_st((S, c, outs)), ('int', c, None)) for c in self.classes]

    def on_store(self, I, w, depth, place, v, stmt):
        if not self.base_is_input(I, w, depth, place):
            return None
        self.nstores += 1
        S, cls, outs = w.st
        if v == const_int(0):
            item = 'SEP'
        elif cls is not None and v == ('int', cls, None):
            item = 'BYTE'
        else:
            item = '?'
            self.problems.append("a value other than the separator or the current input byte is stored at %s" % stmt['span'])
        # T3: index operand
        idx = [e for e in place['p'] if e['k'] == 'index'][0]['l']
        nm = self.index_name(I, w, depth, idx)
        return w.with_st((S, cls, outs + ((item, nm),)))

    def on_call(self, I, w, ci, args):
        p = ci.nresolved or ci.npath
        if p and p.endswith('::next') and 'range' in p:
            # loop head: close the previous iteration, open the next
            S, cls, outs = w.st
            cur = self.state_of(I, w, ci.depth)
            if S is None:
                self.starts.add(cur)
            else:
                if cls is None:
                    self.problems.append("an iteration does not read the line")
                self.trans.setdefault((S, cls), set()).add((cur, outs))
            w2 = w.with_st((cur, None, ()))
            return [(w2, some(('sym', 'pos'))), (w2.with_st((cur, 'END', ())), none())]
        if ci.npath in ('core::str::<impl str>::as_bytes_mut', 'core::str::<impl str>::as_bytes'):
            return [(w, args[0])]
        if ci.npath and ('get_unchecked' in ci.npath or 'from_utf8_unchecked' in ci.npath):
            return [(w, ('sym', 'tokens'))]
        if ci.npath == 'core::slice::<impl [T]>::len':
            return [(w, UINT_ANY)]
        return None


def extract(lib):
    ses = session.Session([lib], lib)
    fn = ses.tok_new
    classes = [c for c in fsm.partition_at(fsm.int_cuts(fsm.with_callees(lib, [fn])) | ref.boundaries()) if 0 not in c]
    rule = TokRule(fn, classes)
    I = Interp([lib], rule)
    exits = I.run(fn, [INPUT], (None, None, ()), {})
    ei = I.field_index('token::Tokens', 'empty')
    for w, rv in exits:
        S, cls, outs = w.st
        if rv[0] == 'adt' and cls == 'END':
            rule.finals.setdefault(S, set()).add(rv[3][ei])
    return fn, I, rule, classes


def slack_lemma(lib):
    """The in-place rewrite never overtakes its reader: on the transducer extracted from `Tokens::new` (state x byte class
    -> state', stores), let slack(S) be the least value of (bytes read so far) - (bytes stored so far) over all paths
    from the start to S (a shortest-path problem over the finite transducer, edge weight 1 - #stores; a negative cycle
    would make it unbounded).  If every transition out of S stores at most slack(S) + 1 bytes, then every store index is
    at most the index of the byte being read, hence inside the line, the output cursor never exceeds the line length, and
    `cursor + 1` cannot overflow.  -> (holds, detail, function path, all index variables)"""
    fn, I, rule, classes = extract(lib)
    if not rule.trans or len(rule.starts) != 1 or rule.problems:
        return False, "tokenizer loop not recognised (%s)" % "; ".join(sorted(set(rule.problems))[:2]), fn.npath
    start = next(iter(rule.starts))
    INF = 10 ** 9
    slack = {start: 0}
    states = {start} | {S for (S, c) in rule.trans} | {S2 for outs in rule.trans.values() for S2, o in outs}
    idxs = set()
    for _ in range(len(states) + 2):
        changed = False
        for (S, c), outs in rule.trans.items():
            if S not in slack:
                continue
            for S2, out in outs:
                idxs |= {o[1] for o in out}
                v = slack[S] + (0 if c == 'END' else 1) - len(out)
                if v < slack.get(S2, INF):
                    slack[S2] = v
                    changed = True
        if not changed:
            break
    else:
        return False, "the rewrite can fall behind without bound (a cycle stores more bytes than it reads)", fn.npath
    for (S, c), outs in rule.trans.items():
        if S not in slack:
            continue
        for S2, out in outs:
            room = slack[S] + (0 if c == 'END' else 1)
            if len(out) > room:
                return False, "in state %s on %s the loop stores %d bytes with only %d consumed and not yet overwritten" % (
                    dict(S), fsm.cls_name(c) if c != 'END' else 'end of line', len(out), room), fn.npath
    if len(idxs) > 1:
        return False, "stores go through different index variables %s" % sorted(idxs, key=str), fn.npath
    per_mode = {}
    for k, v in slack.items():
        m = dict(k).get('mode', '?')
        per_mode[m] = min(v, per_mode.get(m, INF))
    return True, "least slack per mode: %s" % sorted(per_mode.items(), key=str), fn.npath


def simplify(outs):
    return tuple(o[0] for o in outs)


def run(ctx, res):
    res.explanation = __doc__
    res.rule_text = "T1: one obligation per (reachable implementation/reference state pair, byte class) and per pair for the final flag"
    lib = lib_crate(ctx.crates('default'))
    fn, I, rule, classes = extract(lib)
    if rule.nloads < 1 or rule.nstores < 3 or not rule.trans or len(rule.starts) != 1:
        raise KeyError("tokenizer loop not recognised (loads=%d stores=%d transitions=%d starts=%d)" % (
            rule.nloads, rule.nstores, len(rule.trans), len(rule.starts)))
    for p in sorted(set(rule.problems)):
        res.add_violation(dict(rule='C07.shape', key="C07|shape|%s" % p[:60], msg="%s: %s" % (fn.npath, p)))
    start = (next(iter(rule.starts)), ref.INIT)
    seen = {start: ()}
    work = [start]
    bad = []
    badfinal = []
    while work:
        nxt = []
        for pair in work:
            S, R = pair
            word = seen[pair]
            pre = " ".join("[%s]" % fsm.cls_name(x) for x in word)
            # final flag
            fin = rule.finals.get(S)
            want = const_int(1 if ref.final_empty(R) else 0)
            goodf = fin == {want}
            res.oblige("T1.final|%s" % pre, goodf)
            if not goodf:
                badfinal.append((word, fin, want))
            for c in classes:
                R2, rout = ref.step(R, c)
                outs = rule.trans.get((S, c))
                if not outs:
                    res.oblige("T1|%s|%s" % (pre, fsm.cls_name(c)), False)
                    bad.append((word + (c,), 'no transition', rout))
                    continue
                for S2, out in outs:
                    got = simplify(out)
                    good = got == rout and len(outs) == 1
                    res.oblige("T1|%s|%s" % (pre, fsm.cls_name(c)), good,
                               sample="%s + [%s] -> %s" % (pre or 'start', fsm.cls_name(c), " ".join(got) or 'nothing'))
                    # T3: stores indexed by one and the same variable
                    idxs = {o[1] for o in out}
                    res.oblige("T3|%s|%s" % (pre, fsm.cls_name(c)), len(idxs) <= 1, violation=None if len(idxs) <= 1 else dict(
                        rule='C07.in-place', key="C07|in-place", msg="%s stores tokens through different index variables %s" % (fn.npath, sorted(idxs))))
                    if not good:
                        bad.append((word + (c,), " ".join(got) or 'nothing', rout))
                        continue
                    np_ = (S2, R2)
                    if np_ not in seen:
                        seen[np_] = word + (c,)
                        nxt.append(np_)
        work = nxt
    res.extra['product_states'] = len(seen)
    res.extra['impl_states'] = len({s for s, r in seen})
    res.extra['classes'] = [fsm.cls_name(c) for c in classes]
    if bad:
        bad.sort(key=lambda x: len(x[0]))
        w, got, want = bad[0]
        res.add_violation(dict(
            rule='C07.tokenise', key="C07|tokenise|%s" % fn.npath,
            msg="%s disagrees with the documented quoting rules in %d (state, byte) cases; shortest line: %s : on the last byte it "
                "emits %s, the rules require %s" % (fn.npath, len(bad), " ".join("[%s]" % fsm.cls_name(x) for x in w), got,
                                                    " ".join(want) or 'nothing'),
            examples=["%s : got %s, want %s" % (" ".join("[%s]" % fsm.cls_name(x) for x in w), g, " ".join(wn) or 'nothing')
                      for w, g, wn in bad[:30]], count=len(bad)))
    if badfinal:
        badfinal.sort(key=lambda x: len(x[0]))
        w, fin, want = badfinal[0]
        res.add_violation(dict(
            rule='C07.empty-flag', key="C07|empty-flag|%s" % fn.npath,
            msg="%s: after the line %s the returned `empty` flag is %s, expected %s" % (
                fn.npath, " ".join("[%s]" % fsm.cls_name(x) for x in w) or '(empty line)', fin, want)))
    check_iter(res, lib)
    check_carry(res, lib)
    res.exhaustive = True
    res.trusted = ["rustc MIR", "ecli-mirdump", "analysis/absint.py + fsm.py", "specs/tokenizer.py"]


def check_carry(res, lib):
    """T4: every function that takes a token list - or anything that wraps one by value (`TokensIter`, `ArgList`,
    `ArgsIter`, `RawCommand`) - and returns such a value carries the pair (raw text, exhausted flag) unchanged: that pair is
    what distinguishes `no tokens` from `one empty token`.  Functions that *consume* tokens (iterator `next`, the
    name / arguments split of `RawCommand::from_tokens`) return an Option and are judged elsewhere (T2, C01.D4)."""
    adts = lib.adts_n
    # carriers: adt path -> chain of field names leading to the (tokens, empty) pair
    carriers = {}
    for base_t in ('token::Tokens', 'token::TokensIter'):
        if base_t in adts:
            carriers[base_t] = ()
    changed = True
    while changed:
        changed = False
        for p_, a in adts.items():
            if p_ in carriers or a.get('kind') != 'struct' or len(a['variants']) != 1:
                continue
            for fd in a['variants'][0]['fields']:
                t = fd['ty']
                if t.get('k') == 'adt' and F.norm_path(t['path']) in carriers:
                    carriers[p_] = (fd['name'],) + carriers[F.norm_path(t['path'])]
                    changed = True
                    break
    if len(carriers) < 2:
        raise KeyError("token carriers not found (%s)" % sorted(carriers))

    class R:
        def inline_ok(self, I, ci, body):
            return base.self_adt(body) in carriers

        def on_call(self, I, w, ci, args):
            return None

    I = Interp([lib], R())

    def build(adt):
        chain = carriers[adt]
        if not chain:
            return I.make_adt(adt, tokens=('sym', 'raw'), empty=('sym', 'flag'))
        a = adts[adt]
        inner_t = [F.norm_path(fd['ty']['path']) for fd in a['variants'][0]['fields'] if fd['name'] == chain[0]][0]
        return I.make_adt(adt, **{chain[0]: build(inner_t)})

    def pair(v, adt):
        for _ in range(6):
            if v[0] != 'adt' or v[1] != adt:
                return None
            chain = carriers[adt]
            if not chain:
                return v[3][I.field_index(adt, 'tokens')], v[3][I.field_index(adt, 'empty')]
            a = adts[adt]
            inner_t = [F.norm_path(fd['ty']['path']) for fd in a['variants'][0]['fields'] if fd['name'] == chain[0]][0]
            v = v[3][I.field_index(adt, chain[0])]
            adt = inner_t
        return None

    def carrier_of(ty):
        t = ty
        by_ref = False
        while t.get('k') == 'ref':
            t = t['to']
            by_ref = True
        if t.get('k') == 'adt' and F.norm_path(t['path']) in carriers:
            return F.norm_path(t['path']), by_ref
        return None

    n = 0
    for f in lib.lib_fns():
        if f.kind not in ('AssocFn', 'Fn') or f.name == 'next':
            continue
        rt = base.ret_ty(f)
        dst = carrier_of(rt)
        if dst is None or dst[1]:
            continue
        params = [(i, carrier_of(f.body['locals'][i]['ty'])) for i in range(1, f.body['arg_count'] + 1)]
        cps = [(i, c) for i, c in params if c is not None]
        if len(cps) != 1:
            continue
        idx, (src, by_ref) = cps[0]
        v = build(src)
        args = []
        for i in range(1, f.body['arg_count'] + 1):
            args.append((('ref', (-1, 0, ())) if by_ref else v) if i == idx else TOP)
        ex = I.run(f, args, None, {(-1, 0): v})
        n += 1
        for w, rv in ex:
            got = pair(rv, dst[0])
            good = got == (('sym', 'raw'), ('sym', 'flag'))
            res.oblige("T4|%s" % f.npath, good, sample="%s carries (raw, flag)" % f.npath, violation=None if good else dict(
                rule='C07.carry', key="C07|carry|%s" % f.npath,
                msg="%s does not carry the raw token text and the exhausted flag unchanged (it returns %s): `no tokens` and `one empty "
                    "token` become indistinguishable" % (f.npath, got if got else str(rv)[:120])))
    if n < 4:
        raise KeyError("only %d token-carrying conversions found" % n)
    res.samples.append("T4: %d conversions between %s" % (n, sorted(carriers)))


def check_iter(res, lib):
    """T2: TokensIter::next decision table."""
    fs = [f for f in lib.lib_fns() if base.self_adt(f) == 'token::TokensIter' and f.name == 'next'
          and (f.impl_trait or '').endswith('Iterator')]
    if len(fs) != 1:
        raise KeyError("TokensIter::next not found")
    f = fs[0]

    class R:
        def inline_ok(self, I, ci, body):
            return False

        def on_call(self, I, w, ci, args):
            p = ci.npath or ''
            if p.endswith('::position'):
                return [(w.with_st(w.st + ('found',)), some(('sym', 'p'))), (w.with_st(w.st + ('notfound',)), none())]
            if p == 'core::str::<impl str>::get_unchecked':
                r = args[1]
                if r[0] == 'adt' and r[1].endswith('RangeTo') and r[3][0] == ('sym', 'p'):
                    return [(w, ('sym', 'before'))]
                if r[0] == 'adt' and r[1].endswith('RangeFrom') and r[3][0] == ('symoff', 'p', 1):
                    return [(w, ('sym', 'after'))]
                return [(w, ('sym', 'badslice'))]
            if p in ('core::str::<impl str>::as_bytes', 'core::slice::<impl [T]>::iter'):
                return [(w, args[0])]
            return None

    I = Interp([lib], R())
    ti = I.field_index('token::TokensIter', 'tokens')
    ei = I.field_index('token::TokensIter', 'empty')
    for e0 in (0, 1):
        it = I.make_adt('token::TokensIter', tokens=('sym', 'all'), empty=const_int(e0))
        ex = I.run(f, [('ref', (-1, 0, ()))], (), {(-1, 0): it})
        for w, rv in ex:
            post = w.store[(-1, 0)]
            row = (e0, w.st)
            if e0 == 1:
                good = rv == none() and post == it
                want = "None, unchanged"
            elif w.st == ('found',):
                good = rv == some(('sym', 'before')) and post[3][ti] == ('sym', 'after') and post[3][ei] == const_int(0)
                want = "Some(text before the separator), rest = text after it"
            elif w.st == ('notfound',):
                good = rv == some(('sym', 'all')) and post[3][ei] == const_int(1)
                want = "Some(all that is left), then exhausted"
            else:
                good = False
                want = "a single separator search"
            res.oblige("T2|%s|%s" % row, good, sample="TokensIter::next exhausted=%d %s" % (e0, w.st),
                       violation=None if good else dict(rule='C07.iter', key="C07|iter|%s|%s" % row,
                                                        msg="%s: with exhausted=%d and search %s it does not yield %s" % (f.npath, e0, w.st, want)))
