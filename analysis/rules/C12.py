"""C12 — help requests are answered by the library and never reach the handler.

Decided clauses so far:
 R1 routing (event words of process_byte, every path): with the help feature on, the check
    `HelpRequest::from_command` directly follows command construction; on a request (All | Command) no path
    reaches `CommandProcessor::process`; `All` is answered by `C::list_commands`, `Command` by
    `C::command_help` applied to the request's own command; `Err(UnknownCommand)` is reported as
    `error: ` `unknown command` through the same Writer; nothing else is printed by the library on these paths
    except the framing line break (C13) and the prompt.
 R2 `HelpRequest::from_command` decision table (abstract interpretation with the argument iterator summarised):
    name == "help": first argument a Value(n) -> Command(n, remaining args); no argument -> All; anything else ->
    not a request. Other names: request (for the unchanged command) iff `any` argument equals
    LongOption("help") or ShortOption('h').
 T  derive-generated help against the declaration oracle (fixtures/decls), by abstract exploration of the generated code
    (analysis/genfsm.py): `list_commands` prints the title and every command exactly once with its summary, in order;
    `command_count` is their number; groups list exactly their visible members; `command_help` answers an undeclared name
    with UnknownCommand; for every argument word up to the depth bound the option-skipping walker either prints the
    command's own help or delegates to the sub-command type with the right token as its name (a value-taking parent
    option consumes exactly one value; flags none); the command's own help has the usage line (parent path, name,
    [OPTIONS], positionals, <COMMAND>), every positional under Arguments, every option with its short/long/value name
    plus `-h, --help` under Options, and the sub-command list iff there is one.
Not decided: text layout beyond the constants.
"""
from .. import facts as F
from ..absint import Interp, TOP, OPTION, none, some, TRUE, FALSE
from .common import EventRule, lib_crate, ret_is_err
from . import session
from . import C14 as base

LEVEL = "other"
IMPORTS = [
    ("C08", ("C08.classify",), "`-h` / `--help` among the options before `--` is decided on ArgsIter's classification"),
]


def run(ctx, res):
    res.explanation = __doc__
    res.rule_text = "R1: one obligation per (config, Enter word containing a help decision); R2: per abstract exit of from_command"
    seen_help = False
    for cfg in ctx.feature_configs():
        lib = lib_crate(ctx.crates(cfg))
        ses, words, I = session.process_byte_words(lib)
        words = session.shaped(words)      # flushes are C15's; an empty text skipped = an empty write
        if ses.from_command is None:
            # help feature off: every non-empty command is dispatched (also C16)
            for word, status in words['Enter']:
                if any(l.startswith('from_tokens(') and l.endswith(':Some') for l in word):
                    i = [k for k, l in enumerate(word) if l.startswith('from_tokens(')][0]
                    good = len(word) > i + 1 and word[i + 1].startswith('DISPATCH(')
                    res.oblige("R1|%s|off|%s|%s" % (cfg, status, " ".join(word)), good,
                               violation=None if good else dict(rule='C12.off', key="C12|off",
                                                                msg="help disabled but a command is not handed to the handler: %s" % " ".join(word)))
            continue
        seen_help = True
        n = 0
        for word, status in words['Enter']:
            fc = [k for k, l in enumerate(word) if l.startswith('from_command:')]
            if not fc:
                continue
            n += 1
            sw = " ".join(word)
            i = fc[0]
            kind = word[i].split(':')[1]
            tail = word[i + 1:]
            def ob(clause, good, msg):
                res.oblige("R1|%s|%s|%s|%s" % (cfg, clause, status, sw), good,
                           violation=None if good else dict(rule='C12.' + clause, key="C12|%s" % clause,
                                                            msg="%s; word: %s [%s]" % (msg, sw, cfg)))
            ob('after-construction', i > 0 and word[i - 1].startswith('from_tokens(') and word[i - 1].endswith(':Some'),
               "the help check does not directly follow command construction")
            if kind == 'None':
                continue
            ob('not-dispatched', not any(l.startswith('DISPATCH') for l in word), "a help request reaches the handler")
            cbs = [l for l in tail if l.startswith('CB:')]
            if kind == 'All':
                ob('all-lists', len(cbs) == 1 and cbs[0].startswith('CB:list_commands') and tail[0] == cbs[0],
                   "`help` is not answered by listing the commands (first and only callback)")
            else:
                ob('command-help', len(cbs) == 1 and cbs[0].startswith('CB:command_help(helpcmd)') and tail[0] == cbs[0],
                   "help for a command is not answered by command_help on the requested command")
            outs = [l for l in tail if l.startswith('OUT.')]
            if cbs and cbs[0].endswith('Err(UnknownCommand)'):
                texts = "".join(l.split("const:b'")[1].split("')")[0] if "const:b'" in l else '?' for l in outs)
                ob('unknown-message', texts == 'error: unknown command' or status == 'Err',
                   "an unknown command is not reported as `error: unknown command` (got %r)" % texts)
            elif status == 'Ok':
                ob('no-extra-output', not outs, "the library prints extra text after a successful help callback")
            consts = [l for l in tail if l.startswith('W:const')]
            ob('no-raw-output', not consts, "constants are written directly to the sink on a help path")
        if n < 4:
            raise KeyError("fewer than 4 Enter words contain a help decision (%d)" % n)
    if seen_help:
        from . import decision
        decision.check_from_command(ctx, res)
        check_generated_help(ctx, res, lib_crate(ctx.crates('default')))
    res.exhaustive = True


# ---------------------------------------------------------------------------------------------
# T: derive-generated help (tables and walker) against the declaration oracle

def _opt_label(o):
    parts = []
    if o.get('short'):
        parts.append('-' + o['short'])
    if o.get('long'):
        parts.append('--' + o['long'])
    s = ", ".join(parts)
    if o['kind'] != 'flag':
        s += (" <%s>" if (o.get('required') or o.get('default')) else " [%s]") % o['value_name']
    return s


def check_generated_help(ctx, res, lib):
    import json
    import os
    from .. import genfsm
    from .common import strip_crate
    oracle = json.load(open(os.path.join(F.VERIF, 'fixtures', 'decls', 'oracle.json')))
    crate = ctx.crates('decls')['decls']
    depth = 4 if ctx.tier == 'thorough' else 3
    by_type = {}
    for f in crate.fns:
        if strip_crate(f.impl_trait) == 'service::Help' and f.expn and 'Derive' in f.expn and f.kind == 'AssocFn':
            tk = F.norm_path(f.impl_self['path']) if f.impl_self and f.impl_self.get('k') == 'adt' else None
            by_type.setdefault(tk, {})[f.name] = f
    parse_fns = {}
    for f in crate.fns:
        if f.name == 'parse' and strip_crate(f.impl_trait) == 'service::FromRaw' and f.expn and 'Command' in f.expn \
                and f.impl_self and f.impl_self.get('k') == 'adt':
            parse_fns[F.norm_path(f.impl_self['path'])] = f
    n = 0
    for tk, orc in oracle.items():
        if not isinstance(orc, dict) or 'kind' not in orc:
            continue
        fns = by_type.get(tk)
        if not fns:
            raise KeyError("no derived Help impl found for %s" % tk)
        if orc['kind'] == 'group':
            visible = [m['type'] for m in orc['members'] if not m['hidden'] and m['type'] != 'command::RawCommand'] + \
                      [m['type'] for m in orc['members'] if not m['hidden'] and m['type'] == 'command::RawCommand']
            visible = [m['type'] for m in orc['members'] if not m['hidden']]
            out, rule, I = genfsm.explore([crate, lib], fns['list_commands'], '-', [], 0, 'help')
            for word, rs in out.items():
                subs = [e[1] for e in word if e[0] == 'sublist']
                # members with no commands (RawCommand catch-all: command_count() == 0) may be skipped
                want = [t for t in visible]
                good = [t for t in subs if t in want] == subs and set(t for t in want if t != 'command::RawCommand') <= set(subs) \
                    and len(subs) == len(set(subs))
                res.oblige("T|group-list|%s|%s" % (tk, subs), good, violation=None if good else dict(
                    rule='C12.group-list', key="C12|group-list|%s" % tk,
                    msg="derived Help for group %s lists the commands of %s, the declaration's visible members are %s" % (tk, subs, visible)))
            # command_help of a group: the visible members are asked in declaration order, each at most once, the next one only
            # when the previous did not know the command; the first member that prints the help ends the
            # search; UnknownCommand only after every visible member said so; hidden members are never asked
            out, rule, I = genfsm.explore([crate, lib], fns['command_help'], '-', [], 0, 'help', subhelp_outcomes=True)
            nch = 0
            for word, rs in out.items():
                subs = [(e[1], e[3]) for e in word if e[0] == 'subhelp']
                if any(o == 'Write' for _, o in subs):
                    continue          # what happens after a sink error is C14's concern
                asked = [t for t, _ in subs]
                last = subs[-1][1] if subs else 'Unknown'
                why = None
                if asked != visible[:len(asked)]:
                    why = "asks %s" % (asked,)
                elif any(o != 'Unknown' for _, o in subs[:-1]):
                    why = "asks another member after %s answered %s" % next((t, o) for t, o in subs[:-1] if o != 'Unknown')
                elif last == 'Unknown' and len(asked) != len(visible):
                    why = "gives up after asking only %s" % (asked,)
                elif last == 'Unknown' and not all(r.startswith('Err(UnknownCommand') for r in rs):
                    why = "returns %s although no visible member knows the command" % sorted(rs)
                elif last == 'Ok' and not all(r.startswith('Ok(') for r in rs):
                    why = "returns %s although %s printed the help" % (sorted(rs), asked[-1])
                nch += 1
                good = why is None
                res.oblige("T|group-help|%s|%s" % (tk, subs), good, sample="%s command_help asks %s" % (tk, subs),
                           violation=None if good else dict(
                    rule='C12.group-help', key="C12|group-help|%s|%s" % (tk, (why or '').split(' ')[0]),
                    msg="derived Help::command_help for group %s %s; the declaration's visible members are %s" % (tk, why, visible)))
            if nch < 2:      # non-vacuity: at least "the first member answers" and one path through UnknownCommand
                raise KeyError("group %s: only %d paths of command_help explored" % (tk, nch))
            n += 1
            continue
        cmds = orc['commands']
        # list_commands
        out, rule, I = genfsm.explore([crate, lib], fns['list_commands'], '-', [], 0, 'help')
        for word, rs in out.items():
            items = [e[2] for e in word if e[0] == 'out' and e[1] == 'write_list_element']
            titles = [e[2] for e in word if e[0] == 'out' and e[1] == 'write_title']
            want = ["%s|%s" % (c['name'], c['summary']) for c in cmds]
            good = items == want and titles[:1] == [orc['title'] + ':']
            res.oblige("T|list|%s" % tk, good, sample="%s lists %s" % (tk, items), violation=None if good else dict(
                rule='C12.list', key="C12|list|%s" % tk,
                msg="derived Help::list_commands for %s prints title %s and entries %s; the declaration has title %r and %s"
                    % (tk, titles[:1], items, orc['title'] + ':', want)))
        # command_count
        cc = fns.get('command_count')
        if cc is not None:
            I2 = Interp([crate, lib], None)
            vals = {int_singleton_(rv) for w, rv in I2.run(cc, [], None, {})}
            good = vals == {len(cmds)}
            res.oblige("T|count|%s" % tk, good, violation=None if good else dict(
                rule='C12.count', key="C12|count|%s" % tk,
                msg="derived Help::command_count for %s returns %s, the declaration has %d commands" % (tk, sorted(vals, key=str), len(cmds))))
        # command_help: walker and own help
        for cmd in cmds + [{'name': 'zz-undeclared-command', '_unknown': True}]:
            syms = genfsm.alphabet(cmd)
            d = depth if cmd.get('subcommand') else 1
            out, rule, I = genfsm.explore([crate, lib], fns['command_help'], cmd['name'], syms, d, 'help')
            n += 1
            if cmd.get('_unknown'):
                good = bool(out) and all(rs == {'Err(UnknownCommand{})'} for rs in out.values())
                res.oblige("T|unknown|%s" % tk, good, violation=None if good else dict(
                    rule='C12.unknown', key="C12|unknown|%s" % tk,
                    msg="derived Help::command_help for %s does not answer an undeclared command with UnknownCommand" % tk))
                continue
            bad = []
            own_checked = False
            for word, rs in out.items():
                inputs = tuple(e for e in word if e[0] in ('L', 'S', 'V', 'DD', 'END'))
                exp = genfsm.ref_help(cmd, inputs)
                if exp is None:
                    continue
                sub = [e for e in word if e[0] == 'subhelp']
                if sub:
                    t = sub[0][1]
                    arg = sub[0][2]
                    try:
                        vi = int(arg.split('cmd(v')[1].split(',')[0])
                    except (IndexError, ValueError):
                        vi = -1
                    got = ('sub', t, vi)
                else:
                    got = ('own',)
                res.obligations += 1
                res.evaluations += 1
                if got == exp:
                    res.discharged += 1
                else:
                    bad.append((inputs, got, exp))
                if got == ('own',) and exp == ('own',) and not own_checked:
                    own_checked = True
                    check_own_help(res, tk, cmd, word)
            res.distinct.add("T|walker|%s|%s" % (tk, cmd['name']))
            if cmd.get('subcommand') and parse_fns.get(tk) is not None:
                agree_with_parser(res, crate, lib, tk, cmd, syms, d, out, parse_fns[tk])
            if bad:
                bad.sort(key=lambda x: (len(x[0]), str(x[0])))
                w_, got, exp = bad[0]
                from .C09 import fmt_word
                res.add_violation(dict(
                    rule='C12.walker', key="C12|walker|%s|%s" % (tk, cmd['name']),
                    msg="derived help of %s, command `%s`: for the line `%s %s` it %s, the statement requires it to %s (%d words differ)" % (
                        tk, cmd['name'], cmd['name'], fmt_word(w_),
                        "prints the command's own help" if got == ('own',) else "delegates to %s with the token at position %d as sub-command" % got[1:],
                        "print the command's own help" if exp == ('own',) else "delegate to %s with the token at position %d as sub-command" % exp[1:],
                        len(bad))))
    if n < 20:
        raise KeyError("only %d generated help functions explored" % n)


def agree_with_parser(res, crate, lib, tk, cmd, syms, depth, hout, pf):
    """Sibling agreement: the derived help walker and the derived parser of the same command must agree on which token of
    a line is the sub-command name - for *every* explored word, including those whose meaning the statement leaves open
    (an option that is not followed by its value): `cmd ... sub --help` has to describe the `sub` that `cmd ... sub` runs.
    Options the command does not declare (the help options themselves) are invisible to the walker and removed first."""
    import re
    from .. import genfsm
    pout, prule, pI = genfsm.explore([crate, lib], pf, cmd['name'], syms, depth, 'parse')
    opts = cmd.get('options', [])

    def declared(s_):
        return s_[0] not in ('L', 'S') or any((o.get('long') == s_[1]) if s_[0] == 'L' else (o.get('short') == s_[1]) for o in opts)
    # parser: words (inputs only) at whose last symbol the parser hands the rest to the sub-command
    pdeleg = set()
    pwords = set()
    for word, rs in pout.items():
        inputs = tuple(e for e in word if e[0] in ('L', 'S', 'V', 'DD', 'END'))
        pwords.add(inputs)
        if any('sub<' in r for r in rs) or any(e[0] == '!sub' for e in word):
            pdeleg.add(inputs)

    def parser_delegation(seq):
        for i in range(len(seq)):
            if tuple(seq[:i + 1]) in pdeleg:
                return i
        return None
    bad = []
    nchk = 0
    for word, rs in hout.items():
        inputs = [e for e in word if e[0] in ('L', 'S', 'V', 'DD', 'END')]
        sub = [e for e in word if e[0] == 'subhelp']
        wd = None
        if sub:
            try:
                wd = int(sub[0][2].split('cmd(v')[1].split(',')[0])
            except (IndexError, ValueError):
                continue
        keep = [i for i, e in enumerate(inputs) if declared(e)]
        red = [inputs[i] for i in keep]
        if any(e[0] == 'END' for e in red[:-1]):
            continue
        wd_red = keep.index(wd) if (wd is not None and wd in keep) else None
        if wd is not None and wd_red is None:
            continue
        pd = parser_delegation([e for e in red if e[0] != 'END'])
        # comparable only if the parser explored this reduced word (or delegated on a prefix of it)
        if pd is None and tuple(red) not in pwords and tuple(red + [('END',)]) not in pwords:
            continue
        nchk += 1
        if pd != wd_red:
            bad.append((tuple(inputs), wd_red, pd, tuple(red)))
    res.obligations += nchk
    res.evaluations += nchk
    res.discharged += nchk - len(bad)
    res.distinct.add("T|walker-parser|%s|%s" % (tk, cmd['name']))
    if bad:
        from .C09 import fmt_word
        bad.sort(key=lambda x: (len(x[0]), str(x[0])))
        w_, wd, pd, red = bad[0]

        def say(i):
            return "no token" if i is None else "token %d" % (i + 1)
        res.add_violation(dict(
            rule='C12.walker-parser', key="C12|walker-parser|%s|%s" % (tk, cmd['name']),
            msg="derived help of %s, command `%s`: for the line `%s %s` the help walker takes %s of `%s` as the sub-command name, "
                "the derived parser takes %s: help is printed for a different command path than the one the line runs (%d words differ)"
                % (tk, cmd['name'], cmd['name'], fmt_word(w_), say(wd), fmt_word(red), say(pd), len(bad))))


def int_singleton_(v):
    if v[0] == 'int' and v[2] is None and len(v[1]) == 1:
        return next(iter(v[1]))
    return str(v[:2])


def check_own_help(res, tk, cmd, word):
    outs = [e for e in word if e[0] in ('out', 'parent', 'sublist')]
    texts = [e[2] for e in outs if e[0] == 'out']
    items = [e[2].split('|')[0] for e in outs if e[0] == 'out' and e[1] == 'write_list_element']
    # usage line: title, parent path, name, then the pieces
    def ob(clause, good, msg):
        res.oblige("T|own|%s|%s|%s" % (tk, cmd['name'], clause), good, violation=None if good else dict(
            rule='C12.help-text', key="C12|help-text|%s|%s|%s" % (tk, cmd['name'], clause),
            msg="derived help of %s, command `%s`: %s (printed: %s)" % (tk, cmd['name'], msg, texts[:30])))
    try:
        iu = [i for i, e in enumerate(outs) if e[0] == 'out' and e[1] == 'write_title' and e[2].startswith('Usage')][0]
    except IndexError:
        ob('usage', False, "no usage line")
        return
    after = outs[iu + 1:]
    ip = [i for i, e in enumerate(after) if e[0] == 'parent']
    ob('usage-path', bool(ip) and len(after) > ip[0] + 1 and after[ip[0] + 1][0] == 'out' and after[ip[0] + 1][2] == cmd['name'],
       "the usage line does not print the parent path followed by the command name")
    usage_tail = []
    for e in after[(ip[0] + 2) if ip else 0:]:
        if e[0] == 'out' and e[1] == 'write_str':
            usage_tail.append(e[2].strip())
        else:
            break
    usage_tail = [t for t in usage_tail if t]
    want = (['[OPTIONS]'] if cmd.get('options') else []) + [p['usage'] for p in cmd.get('positionals', [])] + \
           (['<COMMAND>'] if cmd.get('subcommand') else [])
    ob('usage-pieces', [t for t in usage_tail if t != '[OPTIONS]'] == [t for t in want if t != '[OPTIONS]']
       and (('[OPTIONS]' in usage_tail) or not cmd.get('options')),
       "the usage line has %s, the declaration requires %s" % (usage_tail, want))
    for p in cmd.get('positionals', []):
        ob('arg:' + p['field'], p['usage'] in items, "positional %s is missing from the Arguments list" % p['usage'])
    for o in cmd.get('options', []):
        lab = _opt_label(o)
        ob('opt:' + o['field'], lab in items, "option `%s` is missing from the Options list" % lab)
    ob('opt:help', '-h, --help' in items, "`-h, --help` is missing from the Options list")
    has_sub = any(e[0] == 'sublist' for e in outs)
    ob('subcommands', has_sub == bool(cmd.get('subcommand')), "the sub-command list is %s" % ('missing' if cmd.get('subcommand') else 'unexpected'))
    if cmd.get('summary'):
        ob('summary', any(t.startswith(cmd['summary'].split(' continues')[0][:20]) for t in texts), "the description is not printed")
