"""C12 — help requests are answered by the library and never reach the handler.

Decided clauses so far:
 R1 routing (event words of process_byte, every path): with the help feature on, the check
    `HelpRequest::from_command` directly follows command construction; on a request (All | Command) no path
    reaches `CommandProcessor::process`; `All` is answered by `C::list_commands`, `Command` by
    `C::command_help` applied to the request's own command; `Err(UnknownCommand)` is reported as
    `error: ` `unknown command` through the same Writer; nothing else is printed by the library on these paths
    except the framing line break (C13) and the prompt.
 R2 `HelpRequest::from_command` decision table (abstract interpretation with the argument iterator summarised):
    name == "help": first argument a Value(n) -> Command(n, remaining args); no argument -> All; anything else ->
    not a request. Other names: request (for the unchanged command) iff `any` argument equals
    LongOption("help") or ShortOption('h').
 T  completeness of derive-generated help (tables vs. declaration oracle): see rules/tables.py.
Not decided: text layout beyond the constants.
"""
from .. import facts as F
from ..absint import Interp, TOP, OPTION, none, some, TRUE, FALSE
from .common import EventRule, lib_crate, ret_is_err
from . import session
from . import C14 as base

LEVEL = "other"


def run(ctx, res):
    res.explanation = __doc__
    res.rule_text = "R1: one obligation per (config, Enter word containing a help decision); R2: per abstract exit of from_command"
    seen_help = False
    for cfg in ctx.feature_configs():
        lib = lib_crate(ctx.crates(cfg))
        ses, words, I = session.process_byte_words(lib)
        if ses.from_command is None:
            # help feature off: every non-empty command is dispatched (also C16)
            for word, status in words['Enter']:
                if any(l.startswith('from_tokens(') and l.endswith(':Some') for l in word):
                    i = [k for k, l in enumerate(word) if l.startswith('from_tokens(')][0]
                    good = len(word) > i + 1 and word[i + 1].startswith('DISPATCH(')
                    res.oblige("R1|%s|off|%s|%s" % (cfg, status, " ".join(word)), good,
                               violation=None if good else dict(rule='C12.off', key="C12|off",
                                                                msg="help disabled but a command is not handed to the handler: %s" % " ".join(word)))
            continue
        seen_help = True
        n = 0
        for word, status in words['Enter']:
            fc = [k for k, l in enumerate(word) if l.startswith('from_command:')]
            if not fc:
                continue
            n += 1
            sw = " ".join(word)
            i = fc[0]
            kind = word[i].split(':')[1]
            tail = word[i + 1:]
            def ob(clause, good, msg):
                res.oblige("R1|%s|%s|%s|%s" % (cfg, clause, status, sw), good,
                           violation=None if good else dict(rule='C12.' + clause, key="C12|%s" % clause,
                                                            msg="%s; word: %s [%s]" % (msg, sw, cfg)))
            ob('after-construction', i > 0 and word[i - 1].startswith('from_tokens(') and word[i - 1].endswith(':Some'),
               "the help check does not directly follow command construction")
            if kind == 'None':
                continue
            ob('not-dispatched', not any(l.startswith('DISPATCH') for l in word), "a help request reaches the handler")
            cbs = [l for l in tail if l.startswith('CB:')]
            if kind == 'All':
                ob('all-lists', len(cbs) == 1 and cbs[0].startswith('CB:list_commands') and tail[0] == cbs[0],
                   "`help` is not answered by listing the commands (first and only callback)")
            else:
                ob('command-help', len(cbs) == 1 and cbs[0].startswith('CB:command_help(helpcmd)') and tail[0] == cbs[0],
                   "help for a command is not answered by command_help on the requested command")
            outs = [l for l in tail if l.startswith('OUT.')]
            if cbs and cbs[0].endswith('Err(UnknownCommand)'):
                texts = "".join(l.split("const:b'")[1].split("')")[0] if "const:b'" in l else '?' for l in outs)
                ob('unknown-message', texts == 'error: unknown command' or status == 'Err',
                   "an unknown command is not reported as `error: unknown command` (got %r)" % texts)
            elif status == 'Ok':
                ob('no-extra-output', not outs, "the library prints extra text after a successful help callback")
            consts = [l for l in tail if l.startswith('W:const')]
            ob('no-raw-output', not consts, "constants are written directly to the sink on a help path")
        if n < 4:
            raise KeyError("fewer than 4 Enter words contain a help decision (%d)" % n)
    if seen_help:
        from . import decision
        decision.check_from_command(ctx, res)
    res.exhaustive = True
