"""C10 — history recalls submitted lines newest-first.

Decided clauses (no run of the library; MIR only):
 H1 wiring in `Cli` (event words of process_byte, every path): with the history feature on, Enter pushes
    `Editor::text()` before the in-place rewrite; Up asks `next_older`, Down asks `next_newer`; a recalled
    element replaces the line (editor reset, then insert of exactly the recalled element, then redraw); when
    Up yields nothing no event at all follows (moving past the oldest does nothing); when Down yields nothing
    the line becomes the empty string (moving past the newest leaves an empty line).
 H2 a submit ends navigation: at *every* exit of the History method the Enter arm calls, the navigation cursor
    is `None` (abstract interpretation of that method with `next_older` inlined), so the first Up at a fresh
    prompt starts from the newest entry and the first Down yields the empty line.
 H3 recall does not modify the store: `next_older`/`next_newer` write no History field except the cursor.
 H4 space accounting of a submit (linear domain shared with C03, every path of `push`, every buffer size): with `used`
    the bytes in use before and `used'` after: (i) on every path that removes an older copy of the submitted line,
    `used' = used` — re-submitting a stored line drops nothing else; (ii) on every path on which no stored bytes are moved
    or discarded, either nothing was recorded (`used' = used`) or exactly the line and its terminator were appended
    (`used' = used + len + 1`); (iii) whenever `used + len + 1 <= capacity` and the line is recorded without a duplicate,
    nothing is evicted (`used' = used + len + 1`): the oldest are dropped only when necessary.
Not decided: order, deduplication and minimal eviction over arbitrarily long histories (content properties of
the byte buffer), the record-iff-fits guard as a value (see C03 for its arithmetic obligations).
"""
from .. import facts as F
from ..absint import Interp, TOP, OPTION, none, some
from .common import EventRule, lib_crate, ret_is_err
from . import session
from . import C14 as base

LEVEL = "other"


class InlineOnly:
    def __init__(self, adt):
        self.adt = adt

    def on_call(self, I, w, ci, args):
        return None

    def inline_ok(self, I, ci, body):
        return base.self_adt(body) == self.adt


def history_exits(lib, fname):
    fs = [f for f in session.methods_of(lib, 'history::History') if f.name == fname]
    if len(fs) != 1:
        raise KeyError("history::History::%s not found" % fname)
    f = fs[0]
    I = Interp([lib], InlineOnly('history::History'))
    h = I.make_adt('history::History', buffer=('sym', 'buffer0'), cursor=TOP, used=('sym', 'used0'))
    exits = I.run(f, [('ref', (-1, 0, ()))] + [TOP] * (f.body['arg_count'] - 1), None, {(-1, 0): h})
    return f, I, h, exits


def run(ctx, res):
    res.explanation = __doc__
    res.rule_text = "H1: one obligation per (config, key, event word); H2/H3: one per abstract exit of the History method"
    cfgs = [c for c in ctx.feature_configs()]
    for cfg in cfgs:
        lib = lib_crate(ctx.crates(cfg))
        ses, words, I = session.process_byte_words(lib)
        words = session.shaped(words)      # flushes are C15's; an empty text skipped = an empty write
        if not ses.has_history:
            # history feature off in this config: Up/Down must have the empty word (also C16)
            for key in ('Up', 'Down'):
                for word, status in words.get(key, ()):
                    res.oblige("H1|%s|%s|off|%s" % (cfg, key, " ".join(word)), word == (),
                               violation=None if word == () else dict(
                                   rule='C10.off', key="C10|off|%s" % key,
                                   msg="history disabled but key %s does something: %s [%s]" % (key, " ".join(word), cfg)))
            continue
        eff = base.editor_effects(lib)
        resets = tuple('E.' + e['name'] for e in eff.values() if e['reset'])
        push_name = None
        for word, status in words['Enter']:
            for l in word:
                if l.startswith('H.') and l != 'H.push(line)':
                    pass
            hp = [l for l in word if l.startswith('H.')]
            if 'E.text_mut' in word:
                i = word.index('E.text_mut')
                good = any(l.startswith('H.') and l.endswith('(line)') for l in word[:i]) and \
                    not any(l.startswith('H.') for l in word[i:])
                res.oblige("H1|%s|Enter|%s|%s" % (cfg, status, " ".join(word)), good,
                           violation=None if good else dict(
                               rule='C10.push-before-rewrite', key="C10|push-before-rewrite",
                               msg="Enter: the line is not recorded (from Editor::text) before the in-place rewrite, or history is "
                                   "touched after it: %s [%s]" % (" ".join(word), cfg)))
                for l in word[:i]:
                    if l.startswith('H.') and l.endswith('(line)'):
                        push_name = l[2:].split('(')[0]
        for key, meth in (('Up', 'H.next_older'), ('Down', 'H.next_newer')):
            if key not in words:
                raise KeyError("key %s not found" % key)
            for word, status in words[key]:
                sw = " ".join(word)
                def ob(clause, good, msg):
                    res.oblige("H1|%s|%s|%s|%s|%s" % (cfg, key, clause, status, sw), good,
                               violation=None if good else dict(rule='C10.' + clause, key="C10|%s|%s" % (clause, key),
                                                                msg="key %s: %s; word: %s [%s]" % (key, msg, sw, cfg)))
                ob('asks-history', bool(word) and word[0].startswith(meth + ':'), "does not start by asking %s" % meth)
                if not word:
                    continue
                got = word[0].rsplit(':', 1)[1]
                rest = word[1:]
                if got == 'Some':
                    ob('replace', len(rest) >= 2 and rest[0] in resets and rest[1].startswith('E.insert(recalled)'),
                       "a recalled element does not replace the line (reset, insert of the element)")
                    if status == 'Ok':
                        ob('redraw', any(l == 'W:line' for l in rest), "the recalled line is not redrawn")
                elif key == 'Up':
                    ob('past-oldest', rest == (), "moving past the oldest entry does something")
                else:
                    ob('past-newest', len(rest) >= 2 and rest[0] in resets and rest[1].startswith("E.insert(const:b'')"),
                       "moving past the newest entry does not leave an empty line")
                ob('no-other-history', not any(l.startswith('H.') for l in rest), "touches history again")
        if push_name is None:
            raise KeyError("no History method is called from the Enter arm before the rewrite")
        # H2
        f, I2, h0, exits = history_exits(lib, push_name)
        ci = I2.field_index('history::History', 'cursor')
        if not exits:
            raise KeyError("no exit of History::%s" % push_name)
        for w, rv in exits:
            h = w.store[(-1, 0)]
            c = h[3][ci]
            good = c == none()
            res.oblige("H2|%s|%s|cursor=%s|used=%s" % (cfg, f.npath, c[:3], h[3][I2.field_index('history::History', 'used')][:2]), good,
                       sample="H2 %s exit cursor=%s" % (f.npath, 'None' if good else c[:3]),
                       violation=None if good else dict(
                           rule='C10.submit-ends-navigation', key="C10|submit-ends-navigation|%s" % f.npath,
                           msg="%s has an exit on which the navigation cursor is left as it was (not reset to None): after a "
                               "rejected (empty/oversized) submit, Up/Down continue from a stale position" % f.npath))
        # H3
        bi = I2.field_index('history::History', 'buffer')
        ui = I2.field_index('history::History', 'used')
        for nav in ('next_older', 'next_newer'):
            f3, I3, h0, exits3 = history_exits(lib, nav)
            for w, rv in exits3:
                h = w.store[(-1, 0)]
                good = h[3][bi] == ('sym', 'buffer0') and h[3][ui] == ('sym', 'used0')
                res.oblige("H3|%s|%s|%s" % (cfg, nav, h[3][ci][:3]), good,
                           violation=None if good else dict(rule='C10.recall-pure', key="C10|recall-pure|%s" % nav,
                                                            msg="History::%s modifies the stored entries" % nav))
    check_space_accounting(ctx, res)
    check_push_content(ctx, res)
    check_recall_content(ctx, res)
    res.exhaustive = True


def check_space_accounting(ctx, res):
    """H4"""
    from .. import absint, fm
    from . import C03
    from ..runner import Result
    lib = lib_crate(ctx.crates('default'))
    if not session.methods_of(lib, 'history::History'):
        return
    old = absint.WIDEN_AT
    absint.WIDEN_AT = 16
    try:
        sites = {}
        rule = C03.E3(lib, sites, {})
        inv, keymap = C03.inventory(lib)
        rule.keymap = keymap
        f = [x for x in session.methods_of(lib, 'history::History') if x.name == 'push'][0]
        n = 0
        for label, selfv, facts in C03.history_entries(Interp([lib], rule)):
            I = Interp([lib], rule, max_worlds=60000)
            rule.ctx = 'push ' + label
            args, _ = C03.sym_args(rule, f, ('ref', (-1, 0, ())))
            exits = I.run(f, args, facts, {(-1, 0): selfv})
            ui = I.field_index('history::History', 'used')
            tlen = C03.L(args[1][2])
            used0 = fm.lin_atom('used0')
            for w, rv in exits:
                u = C03.L(w.store[(-1, 0)][3][ui])
                marks = sorted(a for c in w.st for a in fm.atoms_of(c) if a.startswith('$copy_within'))
                n += 1
                if u is None:
                    res.oblige("H4|%s|nonlinear" % label, False, violation=dict(
                        rule='C10.accounting', key="C10|accounting|nonlinear", msg="History::push: `used` is not a linear quantity at an exit"))
                    continue
                def eq(a, b):
                    return rule.prove(w, fm.le(a, b)) and rule.prove(w, fm.le(b, a))
                grown = fm.add(fm.add(used0, tlen), fm.lin_const(1))
                dedupe = any('#0@' in m for m in marks)       # the first copy_within of push closes the gap of an older copy
                evict = any('#1@' in m for m in marks)
                if dedupe:
                    good = eq(u, used0)
                    why = "a path that removes an older copy of the submitted line ends with used' != used: other entries are dropped too"
                elif not evict:
                    good = eq(u, used0) or eq(u, grown) or eq(u, fm.add(tlen, fm.lin_const(1)))
                    why = "a path that moves no stored bytes ends with used' that is neither used nor used + len + 1 (nor len + 1 after dropping everything)"
                else:
                    # eviction happened: it must have been necessary
                    fits = fm.le(grown, fm.lin_atom('cap(H)'))
                    good = not rule.feasible(w, [fits])
                    why = "entries are evicted on a path where used + len + 1 <= capacity (eviction was not necessary)"
                res.oblige("H4|%s|%s|%s" % (label, marks, fm.fmt(u)), good, sample="push %s: moves=%s used'=%s" % (label, marks, fm.fmt(u)),
                           violation=None if good else dict(rule='C10.accounting', key="C10|accounting|%s" % ('dedupe' if dedupe else 'evict' if evict else 'plain'),
                                                            msg="History::push: %s (used' = %s)" % (why, fm.fmt(u))))
        if n < 6:
            raise KeyError("History::push: only %d exits in the linear analysis" % n)
        # H5: what the submitted line is compared with
        if not rule.h_compares:
            raise KeyError("History::push never compares the submitted line with stored text")
        for fnp, span, tag, cx in rule.h_compares:
            good = tag.endswith('^entry-start') or '^entry-start!' in tag
            res.oblige("H5|%s|%s" % (span.split(':')[-2], tag), good, sample="compare with history slice %s" % tag, violation=None if good else dict(
                rule='C10.whole-entry', key="C10|whole-entry|%s" % fnp,
                msg="%s at %s compares the submitted line with a piece of the history buffer whose start is %s, i.e. not the start of a "
                    "stored entry (0 or the byte after a NUL found by search): a line could be taken for a duplicate of part of another"
                    % (fnp, span, tag.split('^')[-1])))
    finally:
        absint.WIDEN_AT = old


def check_push_content(ctx, res):
    """H6: the effect of `push` on the *content* of the history buffer, for every content, capacity and line (segment
    algebra over the linear domain, rules/content.py).  At every exit the bytes in use are, in this order: stored bytes
    in their old relative order, then the submitted line, then one NUL; what was dropped from the stored bytes is
    (i) at most one range of exactly len + 1 bytes starting at an entry start (the older copy of the line) and
    (ii) at most one *prefix* (the oldest entries) that ends just after the first NUL at or beyond the number of bytes
    that have to be freed (whole entries, and no more than necessary) - or everything when nothing less suffices;
    nothing is dropped from the newest end.  An exit that writes nothing leaves `used` as it was."""
    from .. import absint, fm
    from . import C03, content
    from .content import ZERO, Undecided
    lib = lib_crate(ctx.crates('default'))
    if not session.methods_of(lib, 'history::History'):
        return
    old = absint.WIDEN_AT
    absint.WIDEN_AT = 16
    try:
        rule = content.ContentE3(lib)
        inv, keymap = C03.inventory(lib)
        rule.keymap = keymap
        f = [x for x in session.methods_of(lib, 'history::History') if x.name == 'push'][0]
        used0, cap = fm.lin_atom('used0'), fm.lin_atom('cap(H)')
        one = fm.lin_const(1)
        n = 0
        nwrite = 0
        for label, selfv, facts in C03.history_entries(Interp([lib], rule)):
            I = Interp([lib], rule, max_worlds=60000)
            rule.ctx = 'push ' + label
            args, _ = C03.sym_args(rule, f, ('ref', (-1, 0, ())))
            exits = I.run(f, args, facts, {(-1, 0): selfv})
            ui = I.field_index('history::History', 'used')
            tl = C03.L(args[1][2])
            tname = content.base_of(args[1][1])
            for w0, rv in exits:
                n += 1
                u = C03.L(w0.store[(-1, 0)][3][ui])
                fx = [e for e in content.effects_of(w0) if e[1] == 'H']
                poss = content.markers(w0, 'pos')

                def ob(clause, good, msg):
                    res.oblige("H6|%s|%s|%d" % (clause, msg[:50], n), good, sample="push content: " + clause,
                               violation=None if good else dict(rule='C10.content', key="C10|content|%s" % clause,
                                                                msg="history::History::push: " + msg))
                if u is None:
                    ob('used-linear', False, "`used` is not a linear quantity at an exit")
                    continue
                if not fx:
                    good = rule.prove(w0, fm.le(u, used0)) and rule.prove(w0, fm.le(used0, u))
                    ob('no-write-no-change', good, "an exit that writes nothing into the buffer changes `used`")
                    continue
                nwrite += 1

                def body(w, u=u, poss=poss, ob=ob):
                    def le(a, b):
                        return rule.prove(w, fm.le(a, b))

                    def eq(a, b):
                        return a == b or (le(a, b) and le(b, a))

                    def entry_start(x):
                        if eq(x, ZERO):
                            return True
                        items = dict(x[0])
                        if len(items) == 1 and x[1] == 0 and list(items.values()) == [1]:
                            a = list(items)[0]
                            if a == 'hc0' or ('@loop' in a and 'cursor' in a):
                                return True         # the navigation cursor: an entry start by the inductive field invariant
                        for (at, base, off, ln, byte, rev) in poss:
                            if base != 'H' or byte != 0:
                                continue
                            nul = content.found_index((at, base, off, ln, byte, rev))
                            if eq(x, fm.add(nul, one)):
                                return True
                        return False
                    c = content.replay(rule, w, 'H', cap)
                    segs = c.normalised(c.prefix(u))
                    if len(segs) < 2 or segs[-1][2] != ('byte', 0) or segs[-2][2][0] != 'text':
                        ob('ends-with-line', False, "the bytes in use do not end with the submitted line and a NUL: " + content.fmt_segs(segs))
                        return
                    (ta, tb, tsrc), (za, zb, _) = segs[-2], segs[-1]
                    good = tsrc[1] == tname and eq(fm.add(tb, ta, -1), tl) and eq(tsrc[2], fm.add(ZERO, ta, -1)) \
                        and eq(za, tb) and eq(zb, fm.add(tb, one)) and eq(zb, u)
                    ob('ends-with-line', good, "the bytes in use do not end with exactly the submitted line and one NUL: " + content.fmt_segs(segs))
                    olds = segs[:-2]
                    if any(s_[2][0] != 'old' for s_ in olds):
                        ob('kept-are-old', False, "bytes of unknown origin precede the new entry: " + content.fmt_segs(segs))
                        return
                    # kept source ranges, in destination order
                    src = [(fm.add(a, s_[1]), fm.add(b, s_[1])) for (a, b, s_) in olds]
                    okc = (not olds) or eq(olds[0][0], ZERO)
                    for k in range(len(olds) - 1):
                        okc = okc and eq(olds[k][1], olds[k + 1][0])
                    okc = okc and ((not olds and eq(ta, ZERO)) or (olds and eq(olds[-1][1], ta)))
                    ob('contiguous', bool(okc), "the kept entries and the new entry are not laid out contiguously from offset 0: " + content.fmt_segs(segs))
                    order = all(le(src[k][1], src[k + 1][0]) for k in range(len(src) - 1))
                    ob('order-kept', order, "stored bytes are reordered: " + content.fmt_segs(segs))
                    if not order:
                        return
                    gaps = []
                    if src:
                        if not eq(src[0][0], ZERO):
                            gaps.append(('prefix', ZERO, src[0][0]))
                        for k in range(len(src) - 1):
                            if not eq(src[k][1], src[k + 1][0]):
                                gaps.append(('middle', src[k][1], src[k + 1][0]))
                        ob('newest-kept', eq(src[-1][1], used0), "the newest stored bytes are dropped (kept sources end at %s, not at `used`)" % content.fmt(src[-1][1]))
                    # dedupe gaps
                    dd = [g for g in gaps if g[0] == 'middle']
                    pf = [g for g in gaps if g[0] == 'prefix']
                    # a removed older copy may also be the first entry: then it is a prefix gap of len + 1 starting at 0
                    used_mid = used0
                    for g in list(dd):
                        good = eq(fm.add(g[2], g[1], -1), fm.add(tl, one)) and entry_start(g[1])
                        ob('dedupe-whole-entry', good, "a range dropped from the middle of the stored bytes [%s, %s) is not len + 1 bytes "
                           "starting at an entry start" % (content.fmt(g[1]), content.fmt(g[2])))
                        used_mid = fm.add(used_mid, fm.add(tl, one), -1)
                    ob('one-dedupe', len(dd) <= 1, "more than one range is dropped from the middle of the stored bytes")
                    need = fm.add(fm.add(used_mid, fm.add(tl, one)), cap, -1)       # bytes that must be freed (may be <= 0)

                    def minimal_prefix(r):
                        """r = 1 + index of the first NUL at or after index need - 1 (search evaluated by the code itself)"""
                        for (at, base, off, ln, byte, rev) in poss:
                            if base == 'H' and byte == 0 and rev is False and eq(fm.add(off, one), need) and eq(r, fm.add(fm.add(off, fm.lin_atom(at)), one)):
                                return True
                        return False
                    if not src:
                        # everything was dropped
                        if rule.feasible(w, [fm.le(one, used0)]):
                            allneeded = le(used_mid, need) or any(
                                base == 'H' and byte == 0 and rev is False and eq(fm.add(off, one), need) and le(used_mid, fm.add(fm.add(off, fm.lin_atom(at)), one))
                                for (at, base, off, ln, byte, rev) in poss) or le(used_mid, ZERO)
                            # dropping "everything" when the only stored entry is the older copy of the line itself
                            alldup = eq(used0, fm.add(tl, one))
                            ob('all-dropped-only-if-needed', allneeded or alldup,
                               "every stored entry is dropped although freeing fewer would do (bytes to free: %s)" % content.fmt(need))
                    for g in pf:
                        if len(dd) == 0 and eq(fm.add(g[2], g[1], -1), fm.add(tl, one)) and not minimal_prefix(g[2]):
                            # the older copy was the oldest entry (removed range starts at 0)
                            continue
                        ob('evict-oldest-minimal', minimal_prefix(g[2]),
                           "the dropped prefix [0, %s) does not end just after the first NUL at or beyond the %s bytes that must be freed"
                           % (content.fmt(g[2]), content.fmt(need)))
                    ob('one-prefix', len(pf) <= 1, "more than one prefix range is dropped")
                try:
                    content.cases(rule, w0, body)
                except Undecided as e:
                    ob('undecided', False, "the buffer content at an exit cannot be decided: %s" % e)
        if n < 6 or nwrite < 3:
            raise KeyError("History::push: only %d exits (%d writing) in the content analysis" % (n, nwrite))
    finally:
        absint.WIDEN_AT = old


def check_recall_content(ctx, res):
    """H7: what `next_older` / `next_newer` hand out, for every content of the history buffer (segment geography of
    rules/content.py; the searches are the code's own, their predicates evaluated abstractly): a returned element is the
    slice that starts at an entry start - offset 0 when the backward NUL search over everything before it found nothing,
    otherwise one past the NUL that search found - and ends exactly at the next NUL; for `next_older` that is the entry
    directly before the current position (the search is anchored at the current entry's start, or at `used` when
    navigation starts), for `next_newer` the entry directly after the current one (start = one past the first NUL at or
    after the cursor); the navigation cursor becomes the start of the returned element; when nothing is returned
    `next_older` leaves the cursor where it was and `next_newer` resets it."""
    from .. import absint, fm
    from . import C03, content
    from .content import ZERO
    lib = lib_crate(ctx.crates('default'))
    meths = {x.name: x for x in session.methods_of(lib, 'history::History')}
    if not meths:
        return
    old = absint.WIDEN_AT
    absint.WIDEN_AT = 16
    try:
        rule = content.ContentE3(lib)
        rule.track_none = True
        inv, keymap = C03.inventory(lib)
        rule.keymap = keymap
        one = fm.lin_const(1)
        used0, hc0 = fm.lin_atom('used0'), fm.lin_atom('hc0')
        n_some = 0
        for name in ('next_older', 'next_newer'):
            f = meths[name]
            for label, selfv, facts in C03.history_entries(Interp([lib], rule)):
                I = Interp([lib], rule, max_worlds=60000)
                rule.ctx = name + ' ' + label
                args, _ = C03.sym_args(rule, f, ('ref', (-1, 0, ())))
                exits = I.run(f, args, facts, {(-1, 0): selfv})
                ci_ = I.field_index('history::History', 'cursor')
                ui_ = I.field_index('history::History', 'used')
                had_cursor = label.endswith('Some')
                for w, rv in exits:
                    h = w.store[(-1, 0)]
                    cur = h[3][ci_]

                    def le(a, b):
                        return a is not None and b is not None and rule.prove(w, fm.le(a, b))

                    def eq(a, b):
                        return a is not None and b is not None and (a == b or (le(a, b) and le(b, a)))

                    def ob(clause, good, msg, _n=name, _l=label):
                        res.oblige("H7|%s|%s|%s|%s" % (_n, _l, clause, msg[:40]), good, sample="recall %s: %s" % (_n, clause),
                                   violation=None if good else dict(rule='C10.recall-entry', key="C10|recall-entry|%s|%s" % (_n, clause),
                                                                    msg="history::History::%s [%s]: %s" % (_n, _l, msg)))
                    ob('store-untouched', not content.effects_of(w) and eq(C03.L(h[3][ui_]), used0), "recall writes into the store")
                    if not (rv[0] == 'adt' and rv[1] == OPTION):
                        ob('definite', False, "the result is not a definite Option")
                        continue
                    if rv[2] == 0:
                        if name == 'next_older':
                            same = (cur == some(('sym', 'hc0'))) if had_cursor else (cur == none())
                            ob('nothing-older-keeps-position', same, "returning nothing changes the navigation position")
                        else:
                            ob('nothing-newer-resets', cur == none(), "returning nothing does not reset the navigation position")
                        continue
                    n_some += 1
                    el = rv[3][0]
                    loc = rule.where(w, el) if el[0] == 'slc' else None
                    ln = C03.L(el[2]) if el[0] == 'slc' else None
                    if loc is None or loc[0] != 'H' or ln is None:
                        ob('located', False, "the returned element is not a located slice of the history buffer")
                        continue
                    s_ = loc[1]
                    poss = [m for m in content.markers(w, 'pos') if m[1] == 'H' and m[4] == 0]
                    nones = [m for m in content.markers(w, 'posnone') if m[0] == 'H' and m[3] == 0]
                    newc = C03.L(cur[3][0]) if (cur[0] == 'adt' and cur[2] == 1) else None
                    ob('cursor-is-start', eq(newc, s_), "the navigation cursor is not set to the start of the returned element")
                    ob('within-used', le(fm.add(s_, one), used0),
                       "the returned element is not shown to start inside the bytes in use (start %s, used %s): bytes left behind by an "
                       "eviction could be recalled" % (content.fmt(s_), content.fmt(used0)))
                    if name == 'next_older':
                        anchor = hc0 if had_cursor else used0         # start of the current entry / end of the stored bytes
                        e = fm.add(anchor, one, -1)                   # the NUL that terminates the entry before it
                        ob('ends-at-terminator', eq(fm.add(s_, ln), e), "the returned element does not end at the NUL before the current position")
                        found = any(content.from_end(m) and eq(m[2], ZERO) and eq(m[3], e) and eq(s_, fm.add(content.found_index(m), one))
                                    for m in poss)
                        first = eq(s_, ZERO) and any(rev in (True, 'rpos') and eq(off, ZERO) and eq(sl, e) for (b_, off, sl, byte, rev) in nones)
                        ob('starts-at-entry-start', found or first,
                           "the returned element does not start one past the nearest NUL before its end (or at 0 when there is none)")
                    else:
                        # the first NUL at or after the cursor ends the current entry; the next entry starts one past it
                        nxt = [(at, off) for (at, b_, off, sl, byte, rev) in poss if rev is False and eq(off, hc0) and eq(s_, fm.add(fm.add(off, fm.lin_atom(at)), one))]
                        ob('starts-after-current', bool(nxt), "the returned element does not start one past the first NUL at or after the cursor")
                        ends = any(rev is False and eq(off, s_) and eq(ln, fm.lin_atom(at)) for (at, b_, off, sl, byte, rev) in poss)
                        ob('ends-at-terminator', ends, "the returned element does not end at the first NUL at or after its start")
        if n_some < 4:
            raise KeyError("History recall: only %d element-returning exits analysed" % n_some)
    finally:
        absint.WIDEN_AT = old
