"""C10 — history recalls submitted lines newest-first.

Decided clauses (no run of the library; MIR only):
 H1 wiring in `Cli` (event words of process_byte, every path): with the history feature on, Enter pushes
    `Editor::text()` before the in-place rewrite; Up asks `next_older`, Down asks `next_newer`; a recalled
    element replaces the line (editor reset, then insert of exactly the recalled element, then redraw); when
    Up yields nothing no event at all follows (moving past the oldest does nothing); when Down yields nothing
    the line becomes the empty string (moving past the newest leaves an empty line).
 H2 a submit ends navigation: at *every* exit of the History method the Enter arm calls, the navigation cursor
    is `None` (abstract interpretation of that method with `next_older` inlined), so the first Up at a fresh
    prompt starts from the newest entry and the first Down yields the empty line.
 H3 recall does not modify the store: `next_older`/`next_newer` write no History field except the cursor.
 H4 space accounting of a submit (linear domain shared with C03, every path of `push`, every buffer size): with `used`
    the bytes in use before and `used'` after: (i) on every path that removes an older copy of the submitted line,
    `used' = used` — re-submitting a stored line drops nothing else; (ii) on every path on which no stored bytes are moved
    or discarded, either nothing was recorded (`used' = used`) or exactly the line and its terminator were appended
    (`used' = used + len + 1`); (iii) whenever `used + len + 1 <= capacity` and the line is recorded without a duplicate,
    nothing is evicted (`used' = used + len + 1`): the oldest are dropped only when necessary.
Not decided: order, deduplication and minimal eviction over arbitrarily long histories (content properties of
the byte buffer), the record-iff-fits guard as a value (see C03 for its arithmetic obligations).
"""
from .. import facts as F
from ..absint import Interp, TOP, OPTION, none, some
from .common import EventRule, lib_crate, ret_is_err
from . import session
from . import C14 as base

LEVEL = "other"


class InlineOnly:
    def __init__(self, adt):
        self.adt = adt

    def on_call(self, I, w, ci, args):
        return None

    def inline_ok(self, I, ci, body):
        return base.self_adt(body) == self.adt


def history_exits(lib, fname):
    fs = [f for f in session.methods_of(lib, 'history::History') if f.name == fname]
    if len(fs) != 1:
        raise KeyError("history::History::%s not found" % fname)
    f = fs[0]
    I = Interp([lib], InlineOnly('history::History'))
    h = I.make_adt('history::History', buffer=('sym', 'buffer0'), cursor=TOP, used=('sym', 'used0'))
    exits = I.run(f, [('ref', (-1, 0, ()))] + [TOP] * (f.body['arg_count'] - 1), None, {(-1, 0): h})
    return f, I, h, exits


def run(ctx, res):
    res.explanation = __doc__
    res.rule_text = "H1: one obligation per (config, key, event word); H2/H3: one per abstract exit of the History method"
    cfgs = [c for c in ctx.feature_configs()]
    for cfg in cfgs:
        lib = lib_crate(ctx.crates(cfg))
        ses, words, I = session.process_byte_words(lib)
        if not ses.has_history:
            # history feature off in this config: Up/Down must have the empty word (also C16)
            for key in ('Up', 'Down'):
                for word, status in words.get(key, ()):
                    res.oblige("H1|%s|%s|off|%s" % (cfg, key, " ".join(word)), word == (),
                               violation=None if word == () else dict(
                                   rule='C10.off', key="C10|off|%s" % key,
                                   msg="history disabled but key %s does something: %s [%s]" % (key, " ".join(word), cfg)))
            continue
        eff = base.editor_effects(lib)
        resets = tuple('E.' + e['name'] for e in eff.values() if e['reset'])
        push_name = None
        for word, status in words['Enter']:
            for l in word:
                if l.startswith('H.') and l != 'H.push(line)':
                    pass
            hp = [l for l in word if l.startswith('H.')]
            if 'E.text_mut' in word:
                i = word.index('E.text_mut')
                good = any(l.startswith('H.') and l.endswith('(line)') for l in word[:i]) and \
                    not any(l.startswith('H.') for l in word[i:])
                res.oblige("H1|%s|Enter|%s|%s" % (cfg, status, " ".join(word)), good,
                           violation=None if good else dict(
                               rule='C10.push-before-rewrite', key="C10|push-before-rewrite",
                               msg="Enter: the line is not recorded (from Editor::text) before the in-place rewrite, or history is "
                                   "touched after it: %s [%s]" % (" ".join(word), cfg)))
                for l in word[:i]:
                    if l.startswith('H.') and l.endswith('(line)'):
                        push_name = l[2:].split('(')[0]
        for key, meth in (('Up', 'H.next_older'), ('Down', 'H.next_newer')):
            if key not in words:
                raise KeyError("key %s not found" % key)
            for word, status in words[key]:
                sw = " ".join(word)
                def ob(clause, good, msg):
                    res.oblige("H1|%s|%s|%s|%s|%s" % (cfg, key, clause, status, sw), good,
                               violation=None if good else dict(rule='C10.' + clause, key="C10|%s|%s" % (clause, key),
                                                                msg="key %s: %s; word: %s [%s]" % (key, msg, sw, cfg)))
                ob('asks-history', bool(word) and word[0].startswith(meth + ':'), "does not start by asking %s" % meth)
                if not word:
                    continue
                got = word[0].rsplit(':', 1)[1]
                rest = word[1:]
                if got == 'Some':
                    ob('replace', len(rest) >= 2 and rest[0] in resets and rest[1].startswith('E.insert(recalled)'),
                       "a recalled element does not replace the line (reset, insert of the element)")
                    if status == 'Ok':
                        ob('redraw', any(l == 'W:line' for l in rest), "the recalled line is not redrawn")
                elif key == 'Up':
                    ob('past-oldest', rest == (), "moving past the oldest entry does something")
                else:
                    ob('past-newest', len(rest) >= 2 and rest[0] in resets and rest[1].startswith("E.insert(const:b'')"),
                       "moving past the newest entry does not leave an empty line")
                ob('no-other-history', not any(l.startswith('H.') for l in rest), "touches history again")
        if push_name is None:
            raise KeyError("no History method is called from the Enter arm before the rewrite")
        # H2
        f, I2, h0, exits = history_exits(lib, push_name)
        ci = I2.field_index('history::History', 'cursor')
        if not exits:
            raise KeyError("no exit of History::%s" % push_name)
        for w, rv in exits:
            h = w.store[(-1, 0)]
            c = h[3][ci]
            good = c == none()
            res.oblige("H2|%s|%s|cursor=%s|used=%s" % (cfg, f.npath, c[:3], h[3][I2.field_index('history::History', 'used')][:2]), good,
                       sample="H2 %s exit cursor=%s" % (f.npath, 'None' if good else c[:3]),
                       violation=None if good else dict(
                           rule='C10.submit-ends-navigation', key="C10|submit-ends-navigation|%s" % f.npath,
                           msg="%s has an exit on which the navigation cursor is left as it was (not reset to None): after a "
                               "rejected (empty/oversized) submit, Up/Down continue from a stale position" % f.npath))
        # H3
        bi = I2.field_index('history::History', 'buffer')
        ui = I2.field_index('history::History', 'used')
        for nav in ('next_older', 'next_newer'):
            f3, I3, h0, exits3 = history_exits(lib, nav)
            for w, rv in exits3:
                h = w.store[(-1, 0)]
                good = h[3][bi] == ('sym', 'buffer0') and h[3][ui] == ('sym', 'used0')
                res.oblige("H3|%s|%s|%s" % (cfg, nav, h[3][ci][:3]), good,
                           violation=None if good else dict(rule='C10.recall-pure', key="C10|recall-pure|%s" % nav,
                                                            msg="History::%s modifies the stored entries" % nav))
    check_space_accounting(ctx, res)
    res.exhaustive = True


def check_space_accounting(ctx, res):
    """H4"""
    from .. import absint, fm
    from . import C03
    from ..runner import Result
    lib = lib_crate(ctx.crates('default'))
    if not session.methods_of(lib, 'history::History'):
        return
    old = absint.WIDEN_AT
    absint.WIDEN_AT = 16
    try:
        sites = {}
        rule = C03.E3(lib, sites, {})
        inv, keymap = C03.inventory(lib)
        rule.keymap = keymap
        f = [x for x in session.methods_of(lib, 'history::History') if x.name == 'push'][0]
        n = 0
        for label, selfv, facts in C03.history_entries(Interp([lib], rule)):
            I = Interp([lib], rule, max_worlds=60000)
            rule.ctx = 'push ' + label
            args, _ = C03.sym_args(rule, f, ('ref', (-1, 0, ())))
            exits = I.run(f, args, facts, {(-1, 0): selfv})
            ui = I.field_index('history::History', 'used')
            tlen = C03.L(args[1][2])
            used0 = fm.lin_atom('used0')
            for w, rv in exits:
                u = C03.L(w.store[(-1, 0)][3][ui])
                marks = sorted(a for c in w.st for a in fm.atoms_of(c) if a.startswith('$copy_within'))
                n += 1
                if u is None:
                    res.oblige("H4|%s|nonlinear" % label, False, violation=dict(
                        rule='C10.accounting', key="C10|accounting|nonlinear", msg="History::push: `used` is not a linear quantity at an exit"))
                    continue
                def eq(a, b):
                    return rule.prove(w, fm.le(a, b)) and rule.prove(w, fm.le(b, a))
                grown = fm.add(fm.add(used0, tlen), fm.lin_const(1))
                dedupe = any('#0@' in m for m in marks)       # the first copy_within of push closes the gap of an older copy
                evict = any('#1@' in m for m in marks)
                if dedupe:
                    good = eq(u, used0)
                    why = "a path that removes an older copy of the submitted line ends with used' != used: other entries are dropped too"
                elif not evict:
                    good = eq(u, used0) or eq(u, grown) or eq(u, fm.add(tlen, fm.lin_const(1)))
                    why = "a path that moves no stored bytes ends with used' that is neither used nor used + len + 1 (nor len + 1 after dropping everything)"
                else:
                    # eviction happened: it must have been necessary
                    fits = fm.le(grown, fm.lin_atom('cap(H)'))
                    good = not rule.feasible(w, [fits])
                    why = "entries are evicted on a path where used + len + 1 <= capacity (eviction was not necessary)"
                res.oblige("H4|%s|%s|%s" % (label, marks, fm.fmt(u)), good, sample="push %s: moves=%s used'=%s" % (label, marks, fm.fmt(u)),
                           violation=None if good else dict(rule='C10.accounting', key="C10|accounting|%s" % ('dedupe' if dedupe else 'evict' if evict else 'plain'),
                                                            msg="History::push: %s (used' = %s)" % (why, fm.fmt(u))))
        if n < 6:
            raise KeyError("History::push: only %d exits in the linear analysis" % n)
        # H5: what the submitted line is compared with
        if not rule.h_compares:
            raise KeyError("History::push never compares the submitted line with stored text")
        for fnp, span, tag, cx in rule.h_compares:
            good = tag.endswith('^entry-start') or '^entry-start!' in tag
            res.oblige("H5|%s|%s" % (span.split(':')[-2], tag), good, sample="compare with history slice %s" % tag, violation=None if good else dict(
                rule='C10.whole-entry', key="C10|whole-entry|%s" % fnp,
                msg="%s at %s compares the submitted line with a piece of the history buffer whose start is %s, i.e. not the start of a "
                    "stored entry (0 or the byte after a NUL found by search): a line could be taken for a duplicate of part of another"
                    % (fnp, span, tag.split('^')[-1])))
    finally:
        absint.WIDEN_AT = old
