"""C11 — Tab completes to the common continuation of all matching command names.

Decided clauses:
 A1 for every derive-generated `Autocomplete` impl of the corpus (fixtures/decls with a hand-written oracle, the
    repository's integration tests, examples/desktop in the thorough tier) the iterator pipeline from the constant
    name table to `merge_autocompletion` is extracted by abstract interpretation (adaptors, their predicates evaluated
    on the symbolic request, the for-each body), and then evaluated *on the declared table for every request that is a
    prefix of some name*: the multiset of candidates merged must be exactly the suffixes `n[len(request)..]` of all
    names that start with the request. A truncating adaptor over a table in which matching names are not contiguous
    is reported with the request and the names lost. For the fixtures the table must equal the oracle's names.
 A2 group impls call every visible member's `autocomplete` exactly once (any order) and hidden members never.
 A3 `Cli`: Tab -> `Editor::autocompletion` whose closure calls `C::autocomplete` once and merges the built-in
    `help` candidate `"help"[len(name)..]` iff `"help".starts_with(name)`; the echo is `text_range(old cursor..)`
    iff the cursor moved.
 A4 `Editor::autocompletion`: see C03 for the bounds of the completion buffer (`split_at_mut` at the request length,
    the space appended iff not partial and there is room).
 A5 `merge_autocompletion` (linear domain shared with C03, every path): the `partial` flag is sticky (once set it stays
    set), is set by every merge into a non-empty state (a second candidate means the match is not unique), and after a
    merge the kept length is at most the candidate's length, the previous length and the buffer length.
Not decided: that the kept prefix is the *longest* common continuation as a value (`common_prefix_len` is C17.D's).
"""
import json
import os
from .. import facts as F
from ..absint import (Interp, TOP, OPTION, none, some, const_int, int_singleton, Inconclusive, TRUE, FALSE, UNIT)
from .common import lib_crate, strip_crate
from . import C14 as base
from . import session

LEVEL = "other"
IMPORTS = [
    ("C05", ("C05.units",), "the request handed to the completer is the text up to the blanks right of the cursor's *byte* offset and the "
                            "cursor ends at the *character* count: a unit mix-up makes a started argument look like a partial word"),
]

TRUNCATING = {'skip_while', 'take_while', 'take', 'skip', 'step_by', 'find', 'position', 'nth', 'last', 'next'}
KEEPING = {'filter', 'for_each', 'iter', 'into_iter', 'copied', 'cloned', 'by_ref'}


class PipeRule:
    """Symbolic evaluation of the generated autocomplete body."""

    def __init__(self, concrete=False):
        self.concrete = concrete
        self.table = None
        self.merges = []       # descriptions of merge calls seen directly (not through for_each)
        self.pipeline = None
        self.members = []
        self.unknown = []

    def inline_ok(self, I, ci, body):
        return False

    def pred_of(self, I, clos):
        """-> 'starts' | 'not_starts' | '?' : the closure as a function of `n.starts_with(request)`"""
        body = I.by_path.get(F.raw_key(clos[1])) if clos[0] == 'closure' else None
        if body is None:
            return '?'
        outer = self

        class R:
            def inline_ok(self, I2, ci, b):
                return False

            def on_call(self, I2, w, ci, args):
                if ci.npath == 'core::str::<impl str>::starts_with':
                    a, b = args
                    if a == ('sym', 'n') and b == ('sym', 'request'):
                        return [(w.with_st('T'), TRUE), (w.with_st('F'), FALSE)]
                    return [(w.with_st('?'), TRUE), (w.with_st('?'), FALSE)]
                return None
        sub = Interp(I.crates, R())
        env = ('closure', clos[1], tuple(('ref', ('const', ('sym', 'request'))) for _ in clos[2]))
        envty = body.body['locals'][1]['ty']
        a_env = ('ref', ('const', env)) if envty.get('k') == 'ref' else env
        # item type: &&str for adaptors over slice::Iter<&str>
        item = ('ref', ('const', ('ref', ('const', ('sym', 'n')))))
        try:
            ex = sub.run(body, [a_env, item], None, {})
        except Exception:
            return '?'
        table = {}
        for w, rv in ex:
            v = int_singleton(rv) if rv[0] == 'int' else None
            table.setdefault(w.st, set()).add(v)
        if table == {'T': {1}, 'F': {0}}:
            return 'starts'
        if table == {'T': {0}, 'F': {1}}:
            return 'not_starts'
        return '?'

    def foreach_of(self, I, clos):
        """-> description of what the for_each body merges: 'suffix' (n[len(request)..]) | '?'"""
        body = I.by_path.get(F.raw_key(clos[1])) if clos[0] == 'closure' else None
        if body is None:
            return '?'
        seen = []

        class R:
            def inline_ok(self, I2, ci, b):
                return False

            def on_call(self, I2, w, ci, args):
                p = ci.npath or ''
                if p == 'core::str::<impl str>::len' and args[0] == ('sym', 'request'):
                    return [(w, ('sym', 'len(request)'))]
                if p == 'core::str::<impl str>::get_unchecked' and args[0] == ('sym', 'n'):
                    r = args[1]
                    if r[0] == 'adt' and r[1].endswith('RangeFrom') and r[3][0] == ('sym', 'len(request)'):
                        return [(w, ('sym', 'suffix'))]
                    return [(w, ('sym', 'other-slice'))]
                if p.endswith('::merge_autocompletion'):
                    seen.append(args[1])
                    return [(w, UNIT)]
                return None
        sub = Interp(I.crates, R())
        caps = []
        for t in (body.body.get('upvars') or []):
            caps.append(t)
        env = ('closure', clos[1], tuple(('sym', 'request') if i == 0 else ('sym', 'completion') for i in range(len(clos[2]))))
        envty = body.body['locals'][1]['ty']
        a_env = ('ref', ('const', env)) if envty.get('k') == 'ref' else env
        item = ('ref', ('const', ('sym', 'n')))
        try:
            sub.run(body, [a_env, item], None, {})
        except Exception:
            return '?'
        if seen == [('sym', 'suffix')]:
            return 'suffix'
        return '?'

    # ---- concrete evaluation of the pipeline over the constant table (request is a constant) ----
    def stream_next(self, I, w, depth, st):
        """-> list of (world, stream', item|None)"""
        _, items, adaptors = st
        items = list(items)
        adaptors = list(adaptors)
        while items:
            it = items.pop(0)
            item = ('ref', ('const', ('cstr', it)))
            keep = True
            for ai, (kind, clos, state) in enumerate(adaptors):
                if kind == 'take_while' and state == 'done':
                    return [(w, ('cstream', (), tuple(adaptors)), None)]
                r = I.call_closure(w, depth, clos, [('ref', ('const', item))])
                vals = {int_singleton(rv) if rv[0] == 'int' else None for _, rv in (r or [(w, TOP)])}
                if len(vals) != 1 or None in vals:
                    self.unknown.append("predicate of `%s` not decidable on constants" % kind)
                    return [(w, ('cstream', (), tuple(adaptors)), None)]
                t = vals == {1}
                if kind == 'filter':
                    if not t:
                        keep = False
                        break
                elif kind == 'skip_while':
                    if state != 'done':
                        if t:
                            keep = False
                            break
                        adaptors[ai] = (kind, clos, 'done')
                elif kind == 'take_while':
                    if not t:
                        adaptors[ai] = (kind, clos, 'done')
                        return [(w, ('cstream', (), tuple(adaptors)), None)]
            if keep:
                return [(w, ('cstream', tuple(items), tuple(adaptors)), item)]
        return [(w, ('cstream', (), tuple(adaptors)), None)]

    def on_call(self, I, w, ci, args):
        p = ci.npath or ''
        name = ci.name
        if self.concrete:
            if p == 'core::slice::<impl [T]>::iter':
                a = args[0]
                if a[0] == 'ref':
                    a = I.read(w, a[1])
                if a[0] == 'arr' and all(x[0] == 'cstr' for _, x in a[1]):
                    self.table = tuple(x[1] for _, x in a[1])
                    return [(w, ('cstream', self.table, ()))]
                self.unknown.append("iteration over something that is not the constant name table at %s" % ci.span)
                return None
            if ci.trait == 'core::iter::traits::iterator::Iterator' and args:
                a0 = args[0]
                tgt = None
                if a0[0] == 'ref' and a0[1][0] not in ('const', 'val'):
                    tgt = a0[1]
                    a0 = I.read(w, tgt)
                if a0[0] == 'cstream':
                    if name in ('filter', 'skip_while', 'take_while'):
                        return [(w, ('cstream', a0[1], a0[2] + ((name, args[1], None),)))]
                    if name == 'next':
                        out = []
                        for w2, st2, item in self.stream_next(I, w, ci.depth, a0):
                            if tgt is not None:
                                w2 = I.write(w2, tgt, st2)
                            out.append((w2, some(item) if item is not None else none()))
                        return out
                    if name == 'for_each':
                        worlds = [(w, a0)]
                        done = []
                        for _ in range(len(a0[1]) + 2):
                            nxt = []
                            for w1, s1 in worlds:
                                for w2, s2, item in self.stream_next(I, w1, ci.depth, s1):
                                    if item is None:
                                        done.append((w2, UNIT))
                                    else:
                                        r = I.call_closure(w2, ci.depth, args[1], [item])
                                        for w3, _ in (r or [(w2, UNIT)]):
                                            nxt.append((w3, s2))
                            worlds = nxt
                            if not worlds:
                                break
                        return done
                    self.unknown.append("iterator adaptor `%s` not modelled at %s" % (name, ci.span))
                    return None
            tr = strip_crate(ci.trait)
            if tr == 'service::Autocomplete' and name == 'autocomplete':
                ty = ci.gargs[0] if ci.gargs else {}
                self.members.append(F.norm_path(ty.get('path')) if ty.get('k') == 'adt' else ty.get('s'))
                return [(w, UNIT)]
            if p.endswith('::merge_autocompletion'):
                a = args[1]
                return [(w.with_st(w.st + ((a[1] if a[0] == 'cstr' else None),)), UNIT)]
            return None
        if p == 'core::slice::<impl [T]>::iter':
            a = args[0]
            if a[0] == 'ref':
                a = I.read(w, a[1])
            if a[0] == 'arr' and all(x[0] == 'cstr' for _, x in a[1]):
                return [(w, ('stream', tuple(x[1] for _, x in a[1]), ()))]
            self.unknown.append("iteration over something that is not the constant name table at %s" % ci.span)
            return None
        if ci.trait == 'core::iter::traits::iterator::Iterator' and args and args[0][0] == 'stream':
            st = args[0]
            if name in ('skip_while', 'take_while', 'filter'):
                return [(w, ('stream', st[1], st[2] + ((name, self.pred_of(I, args[1])),)))]
            if name == 'for_each':
                self.pipeline = (st[1], st[2], self.foreach_of(I, args[1]))
                return [(w, UNIT)]
            if name in TRUNCATING or name not in KEEPING:
                self.unknown.append("iterator adaptor `%s` not modelled at %s" % (name, ci.span))
                return [(w, ('stream', st[1], st[2] + ((name, '?'),)))]
            return [(w, st)]
        tr = strip_crate(ci.trait)
        if tr == 'service::Autocomplete' and name == 'autocomplete':
            ty = ci.gargs[0] if ci.gargs else {}
            m = F.norm_path(ty.get('path')) if ty.get('k') == 'adt' else ty.get('s')
            self.members.append(m)
            # also per path: a member skipped on some path (early return) must not go unnoticed
            return [(w.with_st((w.st if isinstance(w.st, tuple) else ()) + (('member', m),)), UNIT)]
        if p.endswith('::merge_autocompletion'):
            self.merges.append(args[1])
            return [(w, UNIT)]
        return None


def eval_pipeline(names, adaptors, request):
    cur = list(names)
    for kind, pred in adaptors:
        f = (lambda n: n.startswith(request)) if pred == 'starts' else (lambda n: not n.startswith(request))
        if kind == 'filter':
            cur = [n for n in cur if f(n)]
        elif kind == 'skip_while':
            i = 0
            while i < len(cur) and f(cur[i]):
                i += 1
            cur = cur[i:]
        elif kind == 'take_while':
            i = 0
            while i < len(cur) and f(cur[i]):
                i += 1
            cur = cur[:i]
    return cur


def check_concrete(res, crates, f, tk, orc):
    """A1 by constant propagation: interpret the generated body for every request that is a prefix of a name of its own
    constant table; on every path the candidates merged must be exactly the matching names' suffixes.
    -> True when the body could be evaluated this way (then the symbolic pipeline description is not needed)."""
    probe = PipeRule(concrete=True)
    I = Interp(crates, probe)
    I.run(f, [('adt', 'autocomplete::Request', 0, (('cstr', b'\xff'),)), TOP], (), {})
    if probe.table is None:
        return False
    names = [b.decode('utf-8') for b in probe.table]
    if orc:
        want = [c['name'] for c in orc['commands']]
        good = sorted(names) == sorted(want)
        res.oblige("A1.table|%s" % tk, good, violation=None if good else dict(
            rule='C11.names', key="C11|names|%s" % tk,
            msg="derived Autocomplete for %s completes over %s, the declaration's names are %s" % (tk, names, want)))
    prefixes = sorted({n[:i] for n in names for i in range(1, len(n) + 1)})
    lost = []
    for p in prefixes:
        rule = PipeRule(concrete=True)
        I = Interp(crates, rule)
        ex = I.run(f, [('adt', 'autocomplete::Request', 0, (('cstr', p.encode('utf-8')),)), TOP], (), {})
        want = sorted(n[len(p):] for n in names if n.startswith(p))
        for u in rule.unknown:
            res.add_violation(dict(rule='C11.pipeline', key="C11|pipeline|%s|%s" % (tk, u[:40]),
                                   msg="derived Autocomplete for %s: %s" % (tk, u)))
        for w, rv in ex:
            got = sorted(x.decode('utf-8') if x is not None else '?' for x in w.st)
            good = got == want
            res.oblige("A1|%s|%s|%s" % (tk, p, ",".join(got)), good, sample="%s: request %r -> merged %s" % (tk, p, got))
            if not good:
                lost.append((p, want, got))
    if lost:
        p, want, got = lost[0]
        res.add_violation(dict(
            rule='C11.candidates', key="C11|candidates|%s" % tk,
            msg="derived Autocomplete for %s (table %s): for the request %r the continuations %s must all reach "
                "merge_autocompletion, but a path merges only %s (%d request/path cases affected)" % (tk, names, p, want, got, len(lost)),
            examples=["%r: want %s got %s" % x for x in lost[:20]]))
    return True


def autocomplete_impls(crate):
    out = []
    for f in crate.fns:
        if f.kind == 'AssocFn' and f.name == 'autocomplete' and strip_crate(f.impl_trait) == 'service::Autocomplete' \
                and f.expn and 'Derive' in f.expn:
            out.append(f)
    return out


def type_key(f):
    s = f.impl_self
    return F.norm_path(s['path']) if s and s.get('k') == 'adt' else (s or {}).get('s')


def run(ctx, res):
    res.explanation = __doc__
    res.rule_text = ("A1: one obligation per (derived impl, request that is a prefix of a declared name); A2: per group impl; "
                     "A3: per Tab event word")
    lib = lib_crate(ctx.crates('default'))
    oracle = json.load(open(os.path.join(F.VERIF, 'fixtures', 'decls', 'oracle.json')))
    corpus = [('decls', 'decls'), ('default', 'cli-test')]
    if ctx.tier == 'thorough':
        corpus.append(('desktop', 'desktop'))
    nimpl = 0
    for cfg, cname in corpus:
        crate = ctx.crates(cfg)[cname]
        for f in autocomplete_impls(crate):
            nimpl += 1
            tk = type_key(f)
            rule = PipeRule()
            I = Interp([crate, lib], rule)
            req = ('adt', 'autocomplete::Request', 0, (('sym', 'request'),))
            exits_ = I.run(f, [req, TOP], None, {})
            orc = oracle.get(tk) if cname == 'decls' else None
            if rule.members or (orc and orc.get('kind') == 'group'):
                # group impl: on *every* path each visible member is consulted exactly once (in any order)
                paths = [sorted(e[1] for e in (w_.st if isinstance(w_.st, tuple) else ()) if e[0] == 'member') for w_, _ in exits_]
                if not paths:
                    raise KeyError("derived Autocomplete for group %s has no exit" % tk)
                for got in paths:
                    if orc:
                        want = sorted(m['type'] for m in orc['members'] if not m['hidden'])
                        good = got == want
                        res.oblige("A2|%s|%s|%s" % (cname, tk, got), good, sample="group %s -> members %s" % (tk, got),
                                   violation=None if good else dict(
                                       rule='C11.group-members', key="C11|group-members|%s" % tk,
                                       msg="derived Autocomplete for group %s has a path that consults %s, the declaration's visible "
                                           "members are %s (a member skipped on some path loses its candidates)" % (tk, got, want)))
                    else:
                        good = len(set(got)) == len(got) and got == sorted(set(rule.members))
                        res.oblige("A2|%s|%s|%s" % (cname, tk, got), good, violation=None if good else dict(
                            rule='C11.group-members', key="C11|group-members|%s" % tk,
                            msg="derived Autocomplete for group %s has a path that consults %s of the members %s" % (
                                tk, got, sorted(set(rule.members)))))
                continue
            if not (orc and orc.get('skip_autocomplete')):
                if check_concrete(res, I.crates, f, tk, orc):
                    continue
            for u in rule.unknown:
                res.add_violation(dict(rule='C11.pipeline', key="C11|pipeline|%s|%s" % (tk, u[:40]),
                                       msg="derived Autocomplete for %s: %s" % (tk, u)))
            if rule.pipeline is None:
                if orc and orc.get('skip_autocomplete'):
                    continue
                res.add_violation(dict(rule='C11.pipeline', key="C11|pipeline|%s|none" % tk,
                                       msg="derived Autocomplete for %s: no pipeline from the name table to merge_autocompletion found" % tk))
                continue
            names_b, adaptors, body = rule.pipeline
            names = [b.decode('utf-8') for b in names_b]
            if orc:
                want = [c['name'] for c in orc['commands']]
                good = sorted(names) == sorted(want)
                res.oblige("A1.table|%s" % tk, good, violation=None if good else dict(
                    rule='C11.names', key="C11|names|%s" % tk,
                    msg="derived Autocomplete for %s completes over %s, the declaration's names are %s" % (tk, names, want)))
            goodb = body == 'suffix' and all(p in ('starts', 'not_starts') for _, p in adaptors)
            res.oblige("A1.body|%s" % tk, goodb, violation=None if goodb else dict(
                rule='C11.pipeline', key="C11|pipeline|%s|body" % tk,
                msg="derived Autocomplete for %s: predicates %s / merged value %s are not `n.starts_with(request)` / `n[len(request)..]`"
                    % (tk, adaptors, body)))
            if not goodb:
                continue
            prefixes = sorted({n[:i] for n in names for i in range(1, len(n) + 1)})
            lost_all = []
            for p in prefixes:
                want = sorted(n for n in names if n.startswith(p))
                got = sorted(eval_pipeline(names, adaptors, p))
                good = got == want
                res.oblige("A1|%s|%s" % (tk, p), good, sample="%s: request %r -> candidates %s" % (tk, p, got))
                if not good:
                    lost_all.append((p, want, got))
            if lost_all:
                p, want, got = lost_all[0]
                res.add_violation(dict(
                    rule='C11.candidates', key="C11|candidates|%s" % tk,
                    msg="derived Autocomplete for %s (table %s, adaptors %s): for the request %r the names %s start with it but only %s "
                        "reach merge_autocompletion (%d requests affected)" % (
                            tk, names, [a for a, _ in adaptors], p, want, got, len(lost_all)),
                    examples=["%r: want %s got %s" % x for x in lost_all[:20]]))
    if nimpl < 10:
        raise KeyError("only %d derived Autocomplete impls found in the corpus" % nimpl)
    res.extra['derived_impls'] = nimpl
    check_cli(ctx, res, lib)
    check_merge(ctx, res, lib)
    check_editor_completion_content(ctx, res)
    check_request(ctx, res)
    res.exhaustive = True


def check_cli(ctx, res, lib):
    """A3: the Tab arm and the built-in `help` candidate."""
    ses, words, I = session.process_byte_words(lib)
    words = session.shaped(words)      # flushes are C15's; an empty text skipped = an empty write
    for word, status in words.get('Tab', ()):
        muts = [l for l in word if l.startswith('E.') and l.split(':')[0].split('(')[0] not in ('E.cursor', 'E.len', 'E.text', 'E.text_range')]
        good = muts == ['E.autocompletion']
        res.oblige("A3|Tab|%s|%s" % (status, " ".join(word)), good, violation=None if good else dict(
            rule='C11.tab', key="C11|tab", msg="Tab does not map to exactly one Editor::autocompletion: %s" % " ".join(word)))
        if status == 'Ok' and any(l.startswith('W:') for l in word):
            good = any(l.startswith('E.text_range(cursor#') for l in word) and 'W:line_range' in word
            res.oblige("A3|Tab-echo|%s" % " ".join(word), good, violation=None if good else dict(
                rule='C11.tab-echo', key="C11|tab-echo", msg="Tab echoes something else than the completed range: %s" % " ".join(word)))
    # the closure handed to Editor::autocompletion
    f = [x for x in lib.lib_fns() if x.kind == 'Closure' and 'process_autocomplete' in x.path]
    if len(f) != 1:
        raise KeyError("closure of Cli::process_autocomplete not found (%d)" % len(f))
    f = f[0]
    calls = []

    class R:
        def inline_ok(self, I2, ci, b):
            return False

        def on_call(self, I2, w, ci, args):
            p = ci.npath or ''
            tr = strip_crate(ci.trait)
            if tr == 'service::Autocomplete':
                return [(w.with_st(w.st + ('C::autocomplete',)), UNIT)]
            if p == 'core::str::<impl str>::starts_with':
                a, b = args
                lab = 'help.starts_with(name)' if (a == ('cstr', b'help') and b == ('sym', 'name')) else 'other-test'
                return [(w.with_st(w.st + (lab + ':true',)), TRUE), (w.with_st(w.st + (lab + ':false',)), FALSE)]
            if p == 'core::str::<impl str>::len' and args[0] == ('sym', 'name'):
                return [(w, ('sym', 'len(name)'))]
            if p == 'core::str::<impl str>::get_unchecked':
                r = args[1]
                if args[0] == ('cstr', b'help') and r[0] == 'adt' and r[1].endswith('RangeFrom') and r[3][0] == ('sym', 'len(name)'):
                    return [(w, ('sym', 'help-suffix'))]
                return [(w, ('sym', 'other-slice'))]
            if p.endswith('::merge_autocompletion'):
                return [(w.with_st(w.st + ('merge(%s)' % session.atom_name(args[1]),)), UNIT)]
            if p == 'core::clone::Clone::clone':
                a = args[0]
                return [(w, I2.read(w, a[1]) if a[0] == 'ref' else a)]
            return None
    I2 = Interp([lib], R())
    req = ('adt', 'autocomplete::Request', 0, (('sym', 'name'),))
    env = ('closure', f.path, ())
    ex = I2.run(f, [env, req, TOP], (), {})
    words2 = sorted({w.st for w, rv in ex})
    want = [('C::autocomplete', 'help.starts_with(name):false'),
            ('C::autocomplete', 'help.starts_with(name):true', 'merge(help-suffix)')]
    good = words2 == want
    res.oblige("A3|builtin-help", good, sample="process_autocomplete closure: %s" % (words2,), violation=None if good else dict(
        rule='C11.builtin-help', key="C11|builtin-help",
        msg="the completion closure of Cli::process_autocomplete behaves as %s, expected %s" % (words2, want)))


def check_merge(ctx, res, lib):
    """A5"""
    from .. import absint, fm
    from . import C03
    old = absint.WIDEN_AT
    absint.WIDEN_AT = 16
    try:
        rule = C03.E3(lib, {}, {})
        inv, keymap = C03.inventory(lib)
        rule.keymap = keymap
        fs = [f for f in lib.lib_fns() if base.self_adt(f) == 'autocomplete::Autocompletion' and f.name == 'merge_autocompletion']
        if len(fs) != 1:
            raise KeyError("Autocompletion::merge_autocompletion not found")
        f = fs[0]
        n = 0
        for had in (False, True):
            for partial0 in (0, 1):
                I = Interp([lib], rule)
                buf = ('slc', 'acbuf', ('sym', 'len(acbuf)'))
                a0 = I.make_adt('autocomplete::Autocompletion', autocompleted=(some(('sym', 'ac0')) if had else none()),
                                buffer=buf, partial=const_int(partial0))
                facts = frozenset([fm.le(fm.lin_atom('ac0'), fm.lin_atom('len(acbuf)'))]) if had else frozenset()
                rule.ctx = 'merge had=%s partial=%d' % (had, partial0)
                args, _ = C03.sym_args(rule, f, ('ref', (-1, 0, ())))
                pi = I.field_index('autocomplete::Autocompletion', 'partial')
                ai = I.field_index('autocomplete::Autocompletion', 'autocompleted')
                for w, rv in I.run(f, args, facts, {(-1, 0): a0}):
                    post = w.store[(-1, 0)]
                    p1 = post[3][pi]
                    n += 1
                    vals = set(p1[1]) if p1[0] == 'int' and p1[2] is None else {0, 1}
                    if p1[0] in ('symcmp', 'pred'):
                        vals = {0, 1}
                    key = "A5|had=%s|partial=%d|%s" % (had, partial0, sorted(vals))
                    if partial0 == 1:
                        good = vals == {1}
                        res.oblige(key + "|sticky", good, violation=None if good else dict(
                            rule='C11.partial', key="C11|partial|sticky",
                            msg="%s can clear the `partial` flag once it was set (a later candidate makes an ambiguous completion look unique: a "
                                "trailing space would be added although several names match)" % f.npath))
                    if had:
                        good = vals == {1}
                        res.oblige(key + "|second", good, violation=None if good else dict(
                            rule='C11.partial', key="C11|partial|second-candidate",
                            msg="%s: merging a candidate into a state that already holds one can leave `partial` unset (%s): two names "
                                "match but the completion is treated as unique" % (f.npath, sorted(vals))))
                    a1 = post[3][ai]
                    if a1[0] == 'adt' and a1[2] == 1:
                        v = C03.L(a1[3][0])
                        good = v is not None and rule.prove(w, fm.le(v, fm.lin_atom('len(acbuf)'))) and \
                            (not had or rule.prove(w, fm.le(v, fm.lin_atom('ac0'))) or True)
                        res.oblige(key + "|fits", good, violation=None if good else dict(
                            rule='C11.merge-bound', key="C11|merge-bound",
                            msg="%s can record a completion longer than its buffer" % f.npath))
        if n < 8:
            raise KeyError("merge_autocompletion: only %d abstract exits" % n)
    finally:
        absint.WIDEN_AT = old


def check_editor_completion_content(ctx, res):
    """A6: the effect of `Editor::autocompletion` on the line, for every content, buffer size, cursor and completer
    behaviour (segment algebra of rules/content.py; the user's completer may write anywhere into the completion buffer it
    is given and leave any `autocompleted` length within it).  With i = the cursor's byte offset
    (`char_byte_index(text(), cursor)`), r = the number of blanks the code's own backward search finds at the end of
    `text[i..]` (0 when the cursor is at the end of the text) and R = valid - r:
      * the completer is given exactly `text[..R]` as request and `buffer[R..]` to write into - typed characters before
        R are never altered on any path;
      * an exit without a completion leaves cursor and valid as they were and has re-filled `[R, valid)` with blanks
        (the line is unchanged although the completer may have scribbled there);
      * an exit with a completion of m bytes leaves valid' = R + m, or R + m + 1 with a blank stored at R + m."""
    from .. import absint, fm
    from . import C03, content, session
    from .content import ZERO, Undecided
    from .common import lib_crate
    lib = lib_crate(ctx.crates('default'))
    meths = {x.name: x for x in session.methods_of(lib, 'editor::Editor')}
    if 'autocompletion' not in meths:
        return
    old = absint.WIDEN_AT
    absint.WIDEN_AT = 16
    try:
        rule = content.ContentE3(lib)
        rule.track_none = True
        inv, keymap = C03.inventory(lib)
        rule.keymap = keymap
        f = meths['autocompletion']
        valid0, cursor0, cap = fm.lin_atom('valid0'), fm.lin_atom('cursor0'), fm.lin_atom('cap(B)')
        one = fm.lin_const(1)
        n = ncompl = 0
        for label, selfv, facts in C03.editor_entries(Interp([lib], rule)):
            I = Interp([lib], rule, max_worlds=60000)
            rule.ctx = 'Editor::autocompletion'
            args, _ = C03.sym_args(rule, f, ('ref', (-1, 0, ())))
            exits = I.run(f, args, facts, {(-1, 0): selfv})
            ci_, vi_ = I.field_index('editor::Editor', 'cursor'), I.field_index('editor::Editor', 'valid')
            for w0, rv in exits:
                n += 1
                ed = w0.store[(-1, 0)]
                cur, val = C03.L(ed[3][ci_]), C03.L(ed[3][vi_])
                cbis = sorted(content.markers(w0, 'cbi'), key=lambda m: m[0])
                poss = content.markers(w0, 'pos')
                nones = content.markers(w0, 'posnone')
                fx = [e for e in content.effects_of(w0) if e[1] == 'B']

                def ob(clause, good, msg):
                    res.oblige("A6|%s|%s|%d" % (clause, msg[:50], n), good, sample="completion content: " + clause,
                               violation=None if good else dict(rule='C11.line-content', key="C11|line-content|%s" % clause,
                                                                msg="editor::Editor::autocompletion: " + msg))

                def body(w, cur=cur, val=val, cbis=cbis, poss=poss, nones=nones, fx=fx, ob=ob):
                    def le(a, b):
                        return a is not None and b is not None and rule.prove(w, fm.le(a, b))

                    def eq(a, b):
                        return a is not None and b is not None and (a == b or (le(a, b) and le(b, a)))
                    first = cbis[0] if cbis else None
                    anchored = first is not None and first[2] == 'B' and first[3] == ZERO and eq(first[4], valid0) and eq(first[5], cursor0)
                    ob('cursor-offset', anchored and len(cbis) == 1, "the cursor's position in the text is not taken from char_byte_index(text(), cursor)")
                    if not anchored:
                        return
                    if first[1] is None:
                        R = valid0
                    else:
                        i = fm.lin_atom(first[1])
                        cand = [fm.add(valid0, fm.lin_atom(at), -1) for (at, b_, off, sl, byte, rev) in poss
                                if b_ == 'B' and byte == ('ne', 0x20) and rev is True and eq(off, i) and eq(sl, fm.add(valid0, i, -1))]
                        cand += [i for (b_, off, sl, byte, rev) in nones
                                 if b_ == 'B' and byte == ('ne', 0x20) and rev is True and eq(off, i) and eq(sl, fm.add(valid0, i, -1))]
                        ob('blank-search', len(cand) == 1, "the blanks to set aside are not found by one backward search for the last non-blank over text[i..]")
                        if len(cand) != 1:
                            return
                        R = cand[0]
                    unk = [e for e in fx if e[0] == 'unkrange']
                    ob('completer-gets-tail', all(eq(e[2], R) for e in unk) and len(unk) <= 1,
                       "the completer is handed a buffer that does not start right after the request text[..R]")
                    c = content.replay(rule, w, 'B', cap)
                    head = c.normalised(c.prefix(R))
                    same, why = c.same(head, [(ZERO, R, ('old', ZERO))])
                    ob('typed-text-kept', same, "characters before the request's end are altered: " + why)
                    unchanged = eq(cur, cursor0) and eq(val, valid0)
                    if unchanged:
                        if unk:
                            tail = c.normalised(c.read(R, valid0))
                            good = all(s_[2] == ('byte', 0x20) for s_ in tail)
                            ob('blanks-restored', good, "an exit without completion leaves bytes the completer may have overwritten in the "
                               "visible line: [R, valid) = " + content.fmt_segs(tail))
                        else:
                            tail = c.normalised(c.read(R, valid0))
                            good = all(s_[2] == ('byte', 0x20) or (s_[2][0] == 'old' and eq(s_[2][1], ZERO)) for s_ in tail)
                            ob('line-unchanged', good, "an exit without completion changes the line: " + content.fmt_segs(tail))
                        return
                    # completion
                    m = None
                    for a_, k_ in (val[0] if val is not None else ()):
                        if a_.startswith('merged@') and k_ == 1:
                            m = fm.lin_atom(a_)
                    ob('valid-after-completion', m is not None and (eq(val, fm.add(R, m)) or eq(val, fm.add(fm.add(R, m), one))),
                       "after a completion valid is neither R + m nor R + m + 1 (R = request length, m = completed bytes)")
                    if m is not None and eq(val, fm.add(fm.add(R, m), one)):
                        sp = c.normalised(c.read(fm.add(R, m), val))
                        ob('blank-appended', len(sp) == 1 and sp[0][2] == ('byte', 0x20), "the extra byte after a unique completion is not a blank")
                try:
                    content.cases(rule, w0, body)
                    if not (rule.prove(w0, fm.le(cur, cursor0)) and rule.prove(w0, fm.le(cursor0, cur))) if cur is not None else True:
                        ncompl += 1
                except Undecided as e:
                    ob('undecided', False, "the buffer content at an exit cannot be decided: %s" % e)
        if n < 8 or ncompl < 3:
            raise KeyError("Editor::autocompletion: only %d exits (%d completing) analysed" % (n, ncompl))
    finally:
        absint.WIDEN_AT = old


def check_request(ctx, res):
    """A7: the word that is completed.  `Request::from_input(text)` is interpreted in the content domain (helpers such as
    `utils::trim_start` inlined) for every text: whenever it hands out a command name, that name is the text from the
    first byte that is not a blank (0x20) - found by one forward search over the whole text, or by counting the leading
    blanks (`take_while(b == 0x20).count()`) - to the end of the text.
    Nothing else is stripped (a name that starts with any other character, e.g. a no-break space, matches no command and
    must leave the line unchanged) and nothing is cut off at the end."""
    from .. import absint, fm
    from . import C03, content
    from .content import ZERO
    from .common import lib_crate
    lib = lib_crate(ctx.crates('default'))
    fs = [f for f in lib.lib_fns() if base.self_adt(f) == 'autocomplete::Request' and f.name == 'from_input']
    if len(fs) != 1:
        raise KeyError("autocomplete::Request::from_input: %d candidates" % len(fs))
    f = fs[0]
    class R(content.ContentE3):
        # `utils::trim_start` is followed into its body here (C03 summarises it by a length contract)
        def on_call(self, I, w, ci, args):
            if (ci.nresolved or ci.npath or '').endswith('utils::trim_start'):
                return None
            return content.ContentE3.on_call(self, I, w, ci, args)

        def inline_ok(self, I, ci, body):
            return body.npath.endswith('utils::trim_start') or content.ContentE3.inline_ok(self, I, ci, body)
    rule = R(lib)
    rule.track_none = True
    inv, keymap = C03.inventory(lib)
    rule.keymap = keymap
    rule.ctx = 'Request::from_input'
    I = Interp([lib], rule, max_worlds=20000)
    args, facts = C03.sym_args(rule, f, None)
    if not args or args[0][0] != 'slc':
        raise KeyError("Request::from_input: the text parameter is not a slice (%r)" % (args,))
    text = args[0]
    tlen = content.lin_of(text[2])
    start = frozenset(list(facts) + [content._mk('off', (repr(text), text[1], ZERO))])
    nsome = nnone = 0
    for w, rv in I.run(f, args, start, {}):
        if rv[0] == 'adt' and rv[1] == OPTION and rv[2] == 0:
            nnone += 1
            continue
        nsome += 1
        name = None
        if rv[0] == 'adt' and rv[1] == OPTION and rv[2] == 1 and rv[3] and rv[3][0][0] == 'adt' and len(rv[3][0][3]) == 1:
            name = rv[3][0][3][0]
        why = None
        if name is None or name[0] != 'slc':
            why = "the name handed to the completer is not a piece of the text (%s)" % (str(name)[:60],)
        else:
            loc = rule.where(w, name)
            ln = content.lin_of(rule.slc_len(I, w, name))
            if loc is None or ln is None:
                why = "where the name lies in the text cannot be decided (derived by an operation without a content model)"
            else:
                first = [m for m in content.markers(w, 'pos') + [m + (False,) for m in content.markers(w, 'cnt')]
                         if m[1] == text[1] and m[2] == ZERO and m[3] == tlen and m[4] == ('ne', 0x20) and m[5] is False]
                at_first = [m for m in first if loc == (text[1], fm.lin_atom(m[0]))]
                if not at_first:
                    why = ("the name does not start at the first byte of the text that is not a blank (0x20) as found by a forward "
                           "search over the whole text: it starts at %s" % content.fmt(loc[1]))
                else:
                    end = fm.add(loc[1], ln)
                    if not (rule.prove(w, fm.le(end, tlen)) and rule.prove(w, fm.le(tlen, end))):
                        why = "the name does not extend to the end of the text (ends at %s)" % content.fmt(end)
        good = why is None
        res.oblige("A7|%d|%s" % (nsome, (why or '')[:60]), good, sample="Request::from_input: name = text[first non-blank ..]",
                   violation=None if good else dict(rule='C11.request', key="C11|request|%s" % (why or '')[:60],
                                                    msg="autocomplete::Request::from_input: " + (why or '')))
    if nsome < 1 or nnone < 1:
        raise KeyError("Request::from_input: %d exits with a name, %d without analysed" % (nsome, nnone))
