"""Check driver: ./check <Cxx> [--tier quick|thorough] [--explain <violation.json>]"""
import hashlib
import importlib
import json
import os
import sys
import time
import traceback

from . import facts as F
from .absint import Inconclusive

VERIF = F.VERIF
# evidence about /repo itself goes to /verif/evidence; a development run against another tree (ECLI_REPO, used by the
# seeded-change matrix) must not overwrite it, so it writes beside that tree instead
EVID = os.path.join(VERIF, "evidence") if os.environ.get("ECLI_REPO", "/repo") == "/repo" \
    else os.path.join(os.environ["ECLI_REPO"], ".verif-evidence")
KNOWN = os.path.join(VERIF, "known_findings.json")


class Ctx:
    def __init__(self, pid, tier, seed):
        self.pid = pid
        self.tier = tier
        self.seed = seed
        self.key = F.tree_hash()
        self.configs_used = []
        self.notes = []

    def crates(self, config="default"):
        if config not in self.configs_used:
            self.configs_used.append(config)
        return F.load(config, self.key)

    def lib(self, config="default"):
        return self.crates(config)["embedded_cli"]

    def feature_configs(self):
        """configs to analyse for rules that are re-run per feature set"""
        if self.tier == "thorough":
            return list(F.feature_configs().keys())
        return ["default"]

    def note(self, s):
        self.notes.append(s)
        print("  note: " + s)


class Result:
    def __init__(self):
        self.violations = []      # dicts: rule, key, msg, ...
        self.obligations = 0
        self.discharged = 0
        self.assumed = []
        self.samples = []
        self.evaluations = 0
        self.distinct = set()
        self.explanation = ""
        self.rule_text = ""
        self.trusted = []
        self.assumptions = []
        self.extra = {}
        self.exhaustive = None

    def oblige(self, key, ok, sample=None, violation=None):
        """Record one obligation; `key` identifies it (counted as a distinct non-trivial case)."""
        self.obligations += 1
        self.evaluations += 1
        self.distinct.add(key)
        if ok:
            self.discharged += 1
        elif violation is not None:
            self.add_violation(violation)
        if sample is not None and len(self.samples) < 12:
            self.samples.append(sample)

    def add_violation(self, v):
        if not any(x['key'] == v['key'] for x in self.violations):
            self.violations.append(v)

    def merge_rule(self, rule):
        for v in rule.violations:
            self.add_violation(v)


def run_imports(ctx, res, pid, mod):
    """Clauses of sibling properties on which this property's argument rests (module attribute IMPORTS:
    list of (property, tuple of rule-name prefixes or None for all, reason)).  They are re-decided here on the same
    facts and a failure is reported under this property, naming the imported clause; imports are not transitive."""
    imports = getattr(mod, "IMPORTS", [])
    if not imports:
        return
    summary = []
    for imp in imports:
        ipid, prefixes, reason = imp[:3]
        key_parts = imp[3] if len(imp) > 3 else None      # optional: only violations whose key names one of these parts
        sub = Result()
        imod = importlib.import_module("analysis.rules." + ipid)
        try:
            imod.run(ctx, sub)
        except Inconclusive as e:
            sub.add_violation(dict(rule="INCONCLUSIVE", key="%s|INCONCLUSIVE|%s" % (ipid, str(e)[:120]), msg=str(e)))
        except KeyError as e:
            traceback.print_exc()
            sub.add_violation(dict(rule="ANCHOR", key="%s|ANCHOR|%s" % (ipid, str(e)[:120]), msg="anchor not found: %s" % e))
        taken = 0
        for v in sub.violations:
            if prefixes is not None and v["rule"] not in ("INCONCLUSIVE", "ANCHOR") \
                    and not any(v["rule"].startswith(p) for p in prefixes):
                continue
            if key_parts is not None and v["rule"] not in ("INCONCLUSIVE", "ANCHOR") \
                    and not any(kp in v["key"] for kp in key_parts):
                continue
            taken += 1
            res.add_violation(dict(v, rule="%s.via(%s)" % (pid, v["rule"]), key="%s|via|%s" % (pid, v["key"]),
                                   msg="[imported clause of %s: %s] %s" % (ipid, reason, v["msg"])))
        res.obligations += sub.obligations
        res.evaluations += sub.evaluations
        res.discharged += sub.discharged if not taken else max(0, sub.discharged)
        res.distinct |= {"via|%s|%s" % (ipid, k) for k in sub.distinct}
        summary.append(dict(property=ipid, clauses="all" if prefixes is None else list(prefixes), reason=reason,
                            obligations=sub.obligations, discharged=sub.discharged, violations_taken=taken))
        print("  import %s (%s): obligations=%d violations=%d" % (
            ipid, "all" if prefixes is None else ",".join(prefixes), sub.obligations, taken))
    res.extra["imports"] = summary


def load_known():
    if not os.path.exists(KNOWN):
        return {"known": [], "fixed": []}
    with open(KNOWN) as f:
        return json.load(f)


def main(argv=None):
    argv = argv or sys.argv[1:]
    if not argv:
        print("usage: check <Cxx> [--tier quick|thorough]")
        return 2
    pid = argv[0]
    tier = os.environ.get("VERIF_TIER", "quick")
    explain = None
    i = 1
    while i < len(argv):
        if argv[i] == "--tier":
            tier = argv[i + 1]
            i += 2
        elif argv[i] == "--explain":
            explain = argv[i + 1]
            i += 2
        else:
            i += 1
    if tier not in ("quick", "thorough"):
        tier = "quick"
    try:
        seed = int(os.environ.get("VERIF_SEED", "0"))
    except ValueError:
        seed = 0
    if explain:
        with open(explain) as f:
            print(json.dumps(json.load(f), indent=1))
        return 0
    t0 = time.time()
    # an analysis that does not finish decides nothing: give up (fail closed) instead of hanging
    try:
        import signal

        def _too_long(signum, frame):
            raise TimeoutError("no result after %s s" % os.environ.get("VERIF_TIMEOUT", "1500"))
        signal.signal(signal.SIGALRM, _too_long)
        signal.alarm(int(os.environ.get("VERIF_TIMEOUT", "1500")))
    except (ValueError, AttributeError):
        pass
    ctx = Ctx(pid, tier, seed)
    res = Result()
    fatal = None
    try:
        mod = importlib.import_module("analysis.rules." + pid)
        print("[%s] tier=%s tree=%s" % (pid, tier, ctx.key))
        mod.run(ctx, res)
        run_imports(ctx, res, pid, mod)
    except Inconclusive as e:
        fatal = "INCONCLUSIVE: %s" % e
        res.add_violation(dict(rule="INCONCLUSIVE", key="%s|INCONCLUSIVE|%s" % (pid, str(e)[:120]), msg=str(e)))
    except F.ExtractError as e:
        fatal = "EXTRACT: %s" % e
        res.add_violation(dict(rule="ANCHOR", key="%s|EXTRACT" % pid, msg="fact extraction failed: " + str(e)[-1500:]))
    except KeyError as e:
        fatal = "ANCHOR: %s" % e
        traceback.print_exc()
        res.add_violation(dict(rule="ANCHOR", key="%s|ANCHOR|%s" % (pid, str(e)[:120]), msg="anchor not found: %s" % e))
    except Exception as e:      # fail closed: an analysis that cannot finish decides nothing
        fatal = "INTERNAL: %r" % e
        traceback.print_exc()
        res.add_violation(dict(rule="INTERNAL", key="%s|INTERNAL|%s" % (pid, type(e).__name__),
                               msg="the analysis did not complete (%r); nothing is decided" % e))
    wall = time.time() - t0

    known = load_known()
    known_keys = {k["key"]: k for k in known.get("known", []) if k.get("property") == pid}
    os.makedirs(os.path.join(EVID, "violations"), exist_ok=True)
    reported = 0
    known_hit = 0
    lines = []
    for v in res.violations:
        if v["key"] in known_keys:
            known_hit += 1
            lines.append("KNOWN-FINDING: property=%s %s" % (pid, known_keys[v["key"]].get("what", v["msg"])))
            continue
        reported += 1
        h = hashlib.sha1(v["key"].encode()).hexdigest()[:12]
        path = os.path.join(EVID, "violations", "%s-%s.json" % (pid, h))
        with open(path, "w") as f:
            json.dump(dict(property=pid, tree=ctx.key, tier=tier, **v), f, indent=1, default=str)
        print("  violation: [%s] %s" % (v["rule"], v["msg"]))
        lines.append("VIOLATION property=%s replay=%s" % (pid, path))

    level = getattr(mod, "LEVEL", "other") if fatal is None or 'mod' in dir() else "other"
    cov = dict(
        explanation=res.explanation or "static analysis",
        obligations=res.obligations,
        discharged=res.discharged,
        evaluations=max(res.evaluations, 1),
        distinct_nontrivial=len(res.distinct),
        rule=res.rule_text,
        samples=res.samples or ["(none)"],
        checker_cmd="./check %s --tier %s" % (pid, tier),
        trusted_base=res.trusted or ["rustc MIR construction and callee resolution", "ecli-mirdump fact dumper",
                                     "analysis/absint.py abstract interpreter and std models"],
        configs=ctx.configs_used,
        assumed=res.assumed,
        known_findings_hit=known_hit,
        notes=ctx.notes,
    )
    if res.exhaustive is not None:
        cov["exhaustive"] = res.exhaustive
    cov.update(res.extra)
    ev = dict(
        property_id=pid,
        tier=tier,
        seed=seed,
        level=level,
        coverage=cov,
        assumptions=res.assumptions,
        wall_s=round(wall, 2),
        violations=reported,
    )
    with open(os.path.join(EVID, pid + ".json"), "w") as f:
        json.dump(ev, f, indent=1, default=str)
    print("[%s] obligations=%d discharged=%d distinct=%d violations=%d known=%d wall=%.1fs" % (
        pid, res.obligations, res.discharged, len(res.distinct), reported, known_hit, wall))
    for ln in lines:
        print(ln)
    return 1 if reported else 0
