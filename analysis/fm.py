"""Linear integer constraints and entailment by Fourier–Motzkin elimination (E3).

A linear form is (coeffs: dict atom -> int, const: int) meaning sum(coef*atom) + const.
A constraint is a linear form L with the meaning  L >= 0  (integers; strict inequalities are tightened: a < b
becomes b - a - 1 >= 0).  `entails(facts, goal)` refutes facts ∧ ¬goal over the rationals, which is sound for
integers (if the rational relaxation is infeasible so is the integer problem) and, with the integer tightening of
strict inequalities, complete enough for the guard shapes in this code base.
"""
from fractions import Fraction

MAX_CONSTRAINTS = 4000


def lin(coeffs=None, const=0):
    c = {k: v for k, v in (coeffs or {}).items() if v != 0}
    return (tuple(sorted(c.items())), const)


def lin_atom(a):
    return (((a, 1),), 0)


def lin_const(n):
    return ((), n)


def add(a, b, sign=1):
    d = dict(a[0])
    for k, v in b[0]:
        d[k] = d.get(k, 0) + sign * v
    return lin(d, a[1] + sign * b[1])


def scale(a, k):
    return lin({x: v * k for x, v in a[0]}, a[1] * k)


def ge0(l):          # l >= 0
    return l


def le(a, b):        # a <= b   <=>  b - a >= 0
    return add(b, a, -1)


def lt(a, b):        # a < b    <=>  b - a - 1 >= 0
    return add(add(b, a, -1), lin_const(-1))


def negate(c):       # not (c >= 0)  <=>  -c - 1 >= 0
    return add(scale(c, -1), lin_const(-1))


def atoms_of(c):
    return {k for k, _ in c[0]}


def fmt(c):
    parts = []
    for k, v in c[0]:
        if v == 1:
            parts.append("+ %s" % k)
        elif v == -1:
            parts.append("- %s" % k)
        else:
            parts.append("%+d*%s" % (v, k))
    if c[1] or not parts:
        parts.append("%+d" % c[1])
    s = " ".join(parts)
    return (s[2:] if s.startswith("+ ") else s) + " >= 0"


def _norm_rows(rows):
    """integer rows {var: coef}, const  ->  deduplicated: coefficients divided by their gcd (constant floored: sound for
    integers and tighter), and for each coefficient vector only the tightest constant kept"""
    from math import gcd
    best = {}
    for co, c in rows:
        co = {k: v for k, v in co.items() if v != 0}
        if not co:
            if c < 0:
                return None
            continue
        g = 0
        for v in co.values():
            g = gcd(g, abs(v))
        if g > 1:
            co = {k: v // g for k, v in co.items()}
            c = c // g          # floor: sum(co*x) >= -c/g  with integer lhs  =>  sum >= ceil(-c/g) = -floor(c/g)
        key = tuple(sorted(co.items()))
        if key not in best or c < best[key]:
            best[key] = c
    return [(dict(k), c) for k, c in best.items()]


def infeasible(cons):
    """True iff the conjunction of `cons` (each L >= 0, integer coefficients) has no integer solution that the
    Fourier-Motzkin relaxation can exclude (rational elimination with integer tightening of each derived row)."""
    rows = _norm_rows([(dict(coeffs), const) for coeffs, const in cons])
    if rows is None:
        return True
    while True:
        if not rows:
            return False
        count = {}
        for co, c in rows:
            for k, v in co.items():
                p, n = count.get(k, (0, 0))
                count[k] = (p + (v > 0), n + (v < 0))
        var = min(count, key=lambda k: count[k][0] * count[k][1])
        pos = [(co, c) for co, c in rows if co.get(var, 0) > 0]
        neg = [(co, c) for co, c in rows if co.get(var, 0) < 0]
        rest = [(co, c) for co, c in rows if co.get(var, 0) == 0]
        if len(pos) * len(neg) + len(rest) > MAX_CONSTRAINTS:
            return False     # give up: not proved
        new = []
        for pco, pc in pos:
            a = pco[var]
            for nco, nc in neg:
                b = -nco[var]
                co = {}
                for k, v in pco.items():
                    if k != var:
                        co[k] = co.get(k, 0) + v * b
                for k, v in nco.items():
                    if k != var:
                        co[k] = co.get(k, 0) + v * a
                new.append((co, pc * b + nc * a))
        rows = _norm_rows(rest + new)
        if rows is None:
            return True
        if len(rows) > MAX_CONSTRAINTS:
            return False     # give up: not proved


def entails(facts, goal):
    """facts |= goal  (all constraints of the form L >= 0)"""
    rel = relevant(facts, atoms_of(goal))
    return infeasible(rel + [negate(goal)])


def relevant(facts, seed_atoms):
    """facts connected (through shared atoms) to the goal's atoms"""
    seed = set(seed_atoms)
    out = []
    rest = list(facts)
    changed = True
    while changed:
        changed = False
        keep = []
        for f in rest:
            a = atoms_of(f)
            if a & seed or not a:
                out.append(f)
                seed |= a
                changed = True
            else:
                keep.append(f)
        rest = keep
    return out
