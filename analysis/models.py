"""Models of the std combinators that occur on the analysed paths.

Each model: f(I, w, ci, args) -> list[(World, Value)] | None (None = fall through to inline/opaque).
Sources: the documented semantics of core::option / core::result / core::ops::Try.
"""
from . import facts as F
from .absint import (TOP, UNIT, TRUE, FALSE, BOOL, UINT_ANY, OPTION, RESULT, CFLOW, none, some, ok, err,
                     const_int, mk_int, int_singleton, is_int, top_of_type, join)


def _garg_path(ci, i=0):
    g = ci.gargs
    if i < len(g) and g[i].get('k') == 'adt':
        return F.norm_path(g[i]['path'])
    return None


def _arg_ty_path(ci, i=0):
    t = ci.arg_tys[i] if i < len(ci.arg_tys) else {}
    while t.get('k') == 'ref':
        t = t['to']
    if t.get('k') == 'adt':
        return F.norm_path(t['path'])
    return None


def _split(I, w, ci, v, i, path):
    """variants of argument value v (an Option/Result passed by value)."""
    return I.split_value(v, path)


def _deref_target(a):
    if a[0] == 'ref' and a[1][0] not in ('const', 'val'):
        return a[1]
    return None


# ---- Option -----------------------------------------------------------------------------------

def option_take(I, w, ci, args):
    t = _deref_target(args[0])
    if t is None:
        return None
    out = []
    for w2, v in I.split_enum(w, t, OPTION):
        out.append((I.write(w2, t, none()), v))
    return out


def option_as_mut(I, w, ci, args):
    t = _deref_target(args[0])
    if t is None:
        return None
    out = []
    for w2, v in I.split_enum(w, t, OPTION):
        if v[0] == 'adt' and v[2] == 1:
            out.append((w2, some(('ref', t[:2] + (t[2] + (('dc', 1), ('f', 0)),)))))
        elif v[0] == 'adt':
            out.append((w2, none()))
        else:
            return None
    return out


def option_map(I, w, ci, args):
    out = []
    for v in I.split_value(args[0], OPTION):
        if v[0] != 'adt':
            return None
        if v[2] == 0:
            out.append((w, none()))
        else:
            r = I.call_closure(w, ci.depth, args[1], [v[3][0]])
            if r is None:
                return None
            for w2, rv in r:
                out.append((w2, some(rv)))
    return out


def option_unwrap_or(I, w, ci, args):
    out = []
    for v in I.split_value(args[0], OPTION):
        if v[0] != 'adt':
            return None
        out.append((w, args[1] if v[2] == 0 else v[3][0]))
    return out


def option_map_or(I, w, ci, args):
    """Option::map_or(self, default, f)"""
    out = []
    for v in I.split_value(args[0], OPTION):
        if v[0] != 'adt':
            return None
        if v[2] == 0:
            out.append((w, args[1]))
        else:
            r = I.call_closure(w, ci.depth, args[2], [v[3][0]])
            if r is None:
                return None
            out.extend(r)
    return out


def option_map_or_else(I, w, ci, args):
    """Option::map_or_else(self, default_fn, f)"""
    out = []
    for v in I.split_value(args[0], OPTION):
        if v[0] != 'adt':
            return None
        r = I.call_closure(w, ci.depth, args[1], []) if v[2] == 0 else I.call_closure(w, ci.depth, args[2], [v[3][0]])
        if r is None:
            return None
        out.extend(r)
    return out


def option_unwrap_or_else(I, w, ci, args):
    out = []
    for v in I.split_value(args[0], OPTION):
        if v[0] != 'adt':
            return None
        if v[2] == 1:
            out.append((w, v[3][0]))
        else:
            r = I.call_closure(w, ci.depth, args[1], [])
            if r is None:
                return None
            out.extend(r)
    return out


def option_and_then(I, w, ci, args):
    out = []
    for v in I.split_value(args[0], OPTION):
        if v[0] != 'adt':
            return None
        if v[2] == 0:
            out.append((w, none()))
        else:
            r = I.call_closure(w, ci.depth, args[1], [v[3][0]])
            if r is None:
                return None
            out.extend(r)
    return out


def option_filter(I, w, ci, args):
    """Option::filter(self, pred): Some(x) if pred(&x) else None; a predicate over symbolic quantities forks with its facts"""
    out = []
    for v in I.split_value(args[0], OPTION):
        if v[0] != 'adt':
            return None
        if v[2] == 0:
            out.append((w, none()))
            continue
        x = v[3][0]
        r = I.call_closure(w, ci.depth, args[1], [('ref', ('const', x))])
        if r is None:
            return None
        for w2, rv in r:
            if rv == TRUE:
                out.append((w2, some(x)))
            elif rv == FALSE:
                out.append((w2, none()))
            elif rv[0] == 'symcmp' and I.rule is not None and hasattr(I.rule, 'on_symbranch'):
                wt = I.rule.on_symbranch(I, w2, rv, True)
                wf = I.rule.on_symbranch(I, w2, rv, False)
                if wt is not None:
                    out.append((wt, some(x)))
                if wf is not None:
                    out.append((wf, none()))
            else:
                out.append((w2, some(x)))
                out.append((w2, none()))
    return out


def option_or(I, w, ci, args):
    out = []
    for v in I.split_value(args[0], OPTION):
        if v[0] != 'adt':
            return None
        out.append((w, args[1] if v[2] == 0 else v))
    return out


def option_is_some(I, w, ci, args):
    a = args[0]
    if a[0] == 'ref':
        a = I.read(w, a[1])
    if a[0] == 'adt':
        return [(w, TRUE if a[2] == 1 else FALSE)]
    t = _deref_target(args[0])
    if t is not None:
        return [(w2, TRUE if v[2] == 1 else FALSE) for w2, v in I.split_enum(w, t, OPTION)]
    return [(w, BOOL)]


def option_is_none(I, w, ci, args):
    r = option_is_some(I, w, ci, args)
    return [(w2, TRUE if v == FALSE else FALSE if v == TRUE else v) for w2, v in r]


def option_unwrap(I, w, ci, args):
    a = args[0]
    if a[0] == 'adt' and a[2] == 1:
        return [(w, a[3][0])]
    return [(w, top_of_type(ci.dest_ty))]


def option_ok_or(I, w, ci, args):
    out = []
    for v in I.split_value(args[0], OPTION):
        if v[0] != 'adt':
            return None
        out.append((w, err(args[1]) if v[2] == 0 else ok(v[3][0])))
    return out


# ---- Result -----------------------------------------------------------------------------------

def result_map_err(I, w, ci, args):
    out = []
    for v in I.split_value(args[0], RESULT):
        if v[0] != 'adt':
            return None
        if v[2] == 0:
            out.append((w, v))
        else:
            r = I.call_closure(w, ci.depth, args[1], [v[3][0]])
            if r is None:
                out.append((w, err(TOP)))
            else:
                for w2, rv in r:
                    out.append((w2, err(rv)))
    return out


def result_map(I, w, ci, args):
    out = []
    for v in I.split_value(args[0], RESULT):
        if v[0] != 'adt':
            return None
        if v[2] == 1:
            out.append((w, v))
        else:
            r = I.call_closure(w, ci.depth, args[1], [v[3][0]])
            if r is None:
                out.append((w, ok(TOP)))
            else:
                for w2, rv in r:
                    out.append((w2, ok(rv)))
    return out


def result_or_else(I, w, ci, args):
    out = []
    for v in I.split_value(args[0], RESULT):
        if v[0] != 'adt':
            return None
        if v[2] == 0:
            out.append((w, v))
        else:
            r = I.call_closure(w, ci.depth, args[1], [v[3][0]])
            if r is None:
                return None
            out.extend(r)
    return out


def result_and_then(I, w, ci, args):
    out = []
    for v in I.split_value(args[0], RESULT):
        if v[0] != 'adt':
            return None
        if v[2] == 1:
            out.append((w, v))
        else:
            r = I.call_closure(w, ci.depth, args[1], [v[3][0]])
            if r is None:
                return None
            out.extend(r)
    return out


def result_ok(I, w, ci, args):
    out = []
    for v in I.split_value(args[0], RESULT):
        if v[0] != 'adt':
            return None
        out.append((w, some(v[3][0]) if v[2] == 0 else none()))
    return out


def result_is_ok(I, w, ci, args):
    a = args[0]
    if a[0] == 'ref':
        a = I.read(w, a[1])
    if a[0] == 'adt':
        return [(w, TRUE if a[2] == 0 else FALSE)]
    return [(w, BOOL)]


def result_is_err(I, w, ci, args):
    r = result_is_ok(I, w, ci, args)
    return [(w2, TRUE if v == FALSE else FALSE if v == TRUE else v) for w2, v in r]


# ---- Try / FromResidual -----------------------------------------------------------------------

def try_branch(I, w, ci, args):
    self_path = _arg_ty_path(ci, 0)
    if self_path not in (OPTION, RESULT):
        return None
    out = []
    for v in I.split_value(args[0], self_path):
        if v[0] != 'adt':
            return None
        if self_path == RESULT:
            if v[2] == 0:
                out.append((w, ('adt', CFLOW, 0, (v[3][0],))))
            else:
                out.append((w, ('adt', CFLOW, 1, (err(v[3][0]),))))
        else:
            if v[2] == 1:
                out.append((w, ('adt', CFLOW, 0, (v[3][0],))))
            else:
                out.append((w, ('adt', CFLOW, 1, (none(),))))
    return out


def _find_from_impl(I, target_ty, source_ty):
    """Local `impl From<source> for target`'s `from` function, matched on ADT path / param-ness."""
    if target_ty.get('k') != 'adt':
        return None
    tpath = F.norm_path(target_ty['path'])
    cands = []
    for c in I.crates:
        for f in c.fns:
            if f.name == 'from' and f.impl_trait == 'core::convert::From' and f.impl_self \
                    and f.impl_self.get('k') == 'adt' and F.norm_path(f.impl_self['path']) == tpath:
                aty = f.body['locals'][1]['ty']
                if aty.get('k') == source_ty.get('k'):
                    if aty.get('k') == 'adt' and F.norm_path(aty['path']) != F.norm_path(source_ty['path']):
                        continue
                    cands.append(f)
    # the same impl may be present in several crate instances (lib and lib-test): take the first
    return cands[0] if cands else None


def from_residual(I, w, ci, args):
    # Self = gargs[0] (the function's return type), residual = gargs[1]
    g = ci.gargs
    if len(g) < 2 or g[0].get('k') != 'adt':
        return None
    self_path = F.norm_path(g[0]['path'])
    if self_path == OPTION:
        return [(w, none())]
    if self_path != RESULT:
        return None
    r = args[0]
    payload = r[3][0] if r[0] == 'adt' and r[2] == 1 else TOP
    # error types: Self = Result<T, F>, residual = Result<Infallible, E>
    tgt_err = g[0]['args'][1] if len(g[0].get('args', [])) > 1 else None
    res_args = g[1].get('args', [])
    src_err = res_args[1] if len(res_args) > 1 else None
    if tgt_err is None or src_err is None:
        return [(w, err(TOP))]
    if tgt_err.get('s') == src_err.get('s'):
        return [(w, err(payload))]          # impl<T> From<T> for T
    f = _find_from_impl(I, tgt_err, src_err)
    if f is None:
        return [(w, err(TOP))]
    return [(w2, err(v)) for w2, v in I.inline(f, w, ci.depth, [payload])]


def convert_from(I, w, ci, args):
    # T::from(x): resolved local impl is inlined by the default path; identity when types agree
    if ci.resolved and F.raw_key(ci.resolved) in I.by_path:
        return None
    if ci.arg_tys and ci.dest_ty and ci.arg_tys[0].get('s') == ci.dest_ty.get('s'):
        return [(w, args[0])]
    return None


# ---- closures ---------------------------------------------------------------------------------

def fn_call(I, w, ci, args):
    """FnOnce::call_once / FnMut::call_mut / Fn::call (f, (args,))"""
    f = args[0]
    by_ref = None
    if f[0] == 'ref':
        by_ref = f
        f = I.read(w, f[1])
    tup = args[1] if len(args) > 1 else UNIT
    cargs = list(tup[1]) if tup[0] == 'tuple' else []
    if f[0] in ('closure', 'fn'):
        r = I.call_closure(w, ci.depth, f, cargs, by_ref=by_ref)
        if r is not None:
            return r
    return None


# ---- clone / misc -----------------------------------------------------------------------------

def clone(I, w, ci, args):
    a = args[0]
    if a[0] == 'ref':
        return [(w, I.read(w, a[1]))]
    if a[0] in ('cstr', 'sym'):
        return [(w, a)]
    return [(w, top_of_type(ci.dest_ty))]


def str_len(I, w, ci, args):
    a = args[0]
    if a[0] == 'cstr':
        return [(w, const_int(len(a[1])))]
    if a[0] == 'sliceref':
        return [(w, a[3])]
    return [(w, UINT_ANY)]


def str_is_empty(I, w, ci, args):
    a = args[0]
    if a[0] == 'cstr':
        return [(w, TRUE if len(a[1]) == 0 else FALSE)]
    return [(w, BOOL)]


def identity(I, w, ci, args):
    return [(w, args[0])]


def str_eq(I, w, ci, args):
    a, b = args[0], args[1]
    for _ in range(4):
        if a[0] == 'ref':
            a = I.read(w, a[1])
        if b[0] == 'ref':
            b = I.read(w, b[1])
    if a[0] == 'cstr' and b[0] == 'cstr':
        return [(w, TRUE if a[1] == b[1] else FALSE)]
    if a[0] == 'arr' and b[0] == 'cstr':
        b = ('arr', tuple((i, const_int(x)) for i, x in enumerate(b[1])), TOP)
    elif a[0] == 'cstr' and b[0] == 'arr':
        a = ('arr', tuple((i, const_int(x)) for i, x in enumerate(a[1])), TOP)
    if a[0] == 'arr' and b[0] == 'arr':
        # fixed-size arrays: equal iff equal element by element
        idx = sorted({i for i, _ in a[1]} | {i for i, _ in b[1]})
        da, db = dict(a[1]), dict(b[1])
        if idx and (a[2] == TOP or b[2] == TOP) is False or idx:
            verdicts = []
            for i in idx:
                x, y = da.get(i, a[2]), db.get(i, b[2])
                if not (is_int(x) and is_int(y)):
                    verdicts.append(None)
                    continue
                sx, sy = int_singleton(x), int_singleton(y)
                if sx is not None and sy is not None:
                    verdicts.append(sx == sy)
                elif x[2] is None and y[2] is None and x[1] and y[1] and not (x[1] & y[1]):
                    verdicts.append(False)
                else:
                    verdicts.append(None)
            if any(v is False for v in verdicts):
                return [(w, FALSE)]
            if all(v is True for v in verdicts) and a[2] == b[2] and is_int(a[2]) and int_singleton(a[2]) is not None:
                return [(w, TRUE)]
            if all(v is True for v in verdicts) and len(idx) >= 1 and (a[2] == TOP and b[2] == TOP):
                return [(w, TRUE)]
            return [(w, BOOL)]
    si, sj = int_singleton(a) if is_int(a) else None, int_singleton(b) if is_int(b) else None
    if si is not None and sj is not None:
        return [(w, TRUE if si == sj else FALSE)]
    if is_int(a) and is_int(b) and a[2] is None and b[2] is None and a[1] and b[1] and not (a[1] & b[1]):
        return [(w, FALSE)]        # disjoint value sets are never equal
    return [(w, BOOL)]


def default_default(I, w, ci, args):
    # resolved local Default impls are inlined; integer/array defaults are zero
    if ci.resolved and F.raw_key(ci.resolved) in I.by_path:
        return None
    ty = ci.dest_ty or {}
    if ty.get('k') == 'int':
        return [(w, const_int(0))]
    if ty.get('k') == 'bool':
        return [(w, FALSE)]
    if ty.get('k') == 'array' and ty['of'].get('k') == 'int':
        return [(w, ('arr', (), const_int(0)))]
    return None


def range_inclusive_new(I, w, ci, args):
    return [(w, ('tuple', (args[0], args[1])))]


def range_inclusive_contains(I, w, ci, args):
    r = args[0]
    if r[0] == 'ref':
        r = I.read(w, r[1])
    item_ref = args[1]
    if r[0] != 'tuple' or item_ref[0] != 'ref':
        return [(w, BOOL)]
    lo, hi = int_singleton(r[1][0]), int_singleton(r[1][1])
    t = item_ref[1]
    v = I.read(w, t)
    if lo is None or hi is None or v[0] != 'int' or v[2] is not None:
        return [(w, BOOL)]
    tpart = mk_int(x for x in v[1] if lo <= x <= hi)
    fpart = mk_int(x for x in v[1] if not (lo <= x <= hi))
    if not fpart[1]:
        return [(w, TRUE)]
    if not tpart[1]:
        return [(w, FALSE)]
    if t[0] in ('const', 'val'):
        return [(w, BOOL)]
    return [(w, ('pred', t, v, tpart, fpart))]


def slice_index(I, w, ci, args):
    """<[T] as Index<Range*>>::index(&slice, range) for constant-shaped ranges over array cells."""
    base = args[0]
    rng = args[1]
    # range types arrive as ('adt', 'core::ops::RangeTo', 0, (end,)) etc.
    if rng[0] != 'adt':
        return None
    name = rng[1].rsplit('::', 1)[-1]
    if base[0] == 'ref':
        tgt = base[1]
        if name == 'RangeTo':
            return [(w, ('sliceref', tgt, const_int(0), rng[3][0]))]
        if name == 'RangeFull':
            return None
    if base[0] == 'cstr':
        s = base[1]
        if name == 'RangeFrom':
            a = int_singleton(rng[3][0])
            if a is not None and a <= len(s):
                return [(w, ('cstr', s[a:]))]
        if name == 'RangeTo':
            b = int_singleton(rng[3][0])
            if b is not None and b <= len(s):
                return [(w, ('cstr', s[:b]))]
    return None


MODELS = {
    'core::option::Option::take': option_take,
    'core::option::Option::as_mut': option_as_mut,
    'core::option::Option::as_ref': option_as_mut,
    'core::option::Option::map': option_map,
    'core::option::Option::unwrap_or': option_unwrap_or,
    'core::option::Option::filter': option_filter,
    'core::option::Option::map_or': option_map_or,
    'core::option::Option::map_or_else': option_map_or_else,
    'core::option::Option::unwrap_or_else': option_unwrap_or_else,
    'core::option::Option::and_then': option_and_then,
    'core::option::Option::or': option_or,
    'core::option::Option::is_some': option_is_some,
    'core::option::Option::is_none': option_is_none,
    'core::option::Option::unwrap': option_unwrap,
    'core::option::Option::unwrap_unchecked': option_unwrap,
    'core::option::Option::expect': option_unwrap,
    'core::option::Option::ok_or': option_ok_or,
    'core::result::Result::map_err': result_map_err,
    'core::result::Result::map': result_map,
    'core::result::Result::or_else': result_or_else,
    'core::result::Result::and_then': result_and_then,
    'core::result::Result::ok': result_ok,
    'core::result::Result::is_ok': result_is_ok,
    'core::result::Result::is_err': result_is_err,
    'core::ops::try_trait::Try::branch': try_branch,
    'core::ops::try_trait::FromResidual::from_residual': from_residual,
    'core::convert::From::from': convert_from,
    'core::convert::Into::into': convert_from,
    'core::ops::function::FnOnce::call_once': fn_call,
    'core::ops::function::FnMut::call_mut': fn_call,
    'core::ops::function::Fn::call': fn_call,
    'core::clone::Clone::clone': None,   # set below (needs resolved check)
    'core::str::len': str_len,
    'core::slice::len': str_len,
    'core::str::is_empty': str_is_empty,
    'core::slice::is_empty': str_is_empty,
    'core::str::as_bytes': identity,
    'core::str::as_bytes_mut': identity,
    'core::str::converts::from_utf8_unchecked': identity,
    'core::str::converts::from_utf8_unchecked_mut': identity,
    'core::cmp::PartialEq::eq': None,
    'core::default::Default::default': default_default,
    'core::ops::range::RangeInclusive::new': range_inclusive_new,
    'core::ops::range::RangeInclusive::contains': range_inclusive_contains,
    'core::ops::index::Index::index': slice_index,
    'core::ops::index::IndexMut::index_mut': slice_index,
}


def cstr_get(I, w, ci, args):
    """str::get_unchecked / get on a constant string with a constant range"""
    a, r = args[0], args[1]
    if a[0] != 'cstr' or r[0] != 'adt':
        return None
    b = a[1]
    nm = r[1].rsplit('::', 1)[-1]
    vals = [int_singleton(x) if is_int(x) else None for x in r[3]]
    if any(v is None for v in vals):
        return None
    res = None
    if nm == 'RangeFrom' and vals[0] <= len(b):
        res = b[vals[0]:]
    elif nm == 'RangeTo' and vals[0] <= len(b):
        res = b[:vals[0]]
    elif nm == 'Range' and vals[0] <= vals[1] <= len(b):
        res = b[vals[0]:vals[1]]
    if res is None:
        return None
    if ci.npath.endswith('::get'):
        return [(w, some(('cstr', res)))]
    return [(w, ('cstr', res))]


def cstr_starts_with(I, w, ci, args):
    a, b = args[0], args[1]
    for _ in range(3):
        if a[0] == 'ref':
            a = I.read(w, a[1])
        if b[0] == 'ref':
            b = I.read(w, b[1])
    if a[0] == 'cstr' and b[0] == 'cstr':
        return [(w, TRUE if a[1].startswith(b[1]) else FALSE)]
    return None


def _cstr2(I, w, args):
    a, b = args[0], args[1]
    for _ in range(3):
        if a[0] == 'ref':
            a = I.read(w, a[1])
        if b[0] == 'ref':
            b = I.read(w, b[1])
    return (a[1], b[1]) if a[0] == 'cstr' and b[0] == 'cstr' else None


def cstr_strip_prefix(I, w, ci, args):
    ab = _cstr2(I, w, args)
    if ab is None:
        return None
    return [(w, some(('cstr', ab[0][len(ab[1]):])) if ab[0].startswith(ab[1]) else none())]


def cstr_strip_suffix(I, w, ci, args):
    ab = _cstr2(I, w, args)
    if ab is None:
        return None
    return [(w, some(('cstr', ab[0][:len(ab[0]) - len(ab[1])])) if ab[0].endswith(ab[1]) else none())]


def cstr_ends_with(I, w, ci, args):
    ab = _cstr2(I, w, args)
    if ab is None:
        return None
    return [(w, TRUE if ab[0].endswith(ab[1]) else FALSE)]


def cstr_split_once(I, w, ci, args):
    """constant text split at a constant one-byte char or constant str delimiter"""
    a, d = args[0], args[1]
    for _ in range(3):
        if a[0] == 'ref':
            a = I.read(w, a[1])
    if a[0] != 'cstr':
        return None
    if is_int(d) and int_singleton(d) is not None and int_singleton(d) < 0x80:
        delim = bytes([int_singleton(d)])
    elif d[0] == 'cstr' and d[1]:
        delim = d[1]
    else:
        return None
    i = a[1].find(delim)
    if i < 0:
        return [(w, none())]
    return [(w, some(('tuple', (('cstr', a[1][:i]), ('cstr', a[1][i + len(delim):])))))]


def cstr_split_last(I, w, ci, args):
    a = args[0]
    for _ in range(3):
        if a[0] == 'ref':
            a = I.read(w, a[1])
    if a[0] != 'cstr':
        return None
    if not a[1]:
        return [(w, none())]
    return [(w, some(('tuple', (('ref', ('const', const_int(a[1][-1]))), ('cstr', a[1][:-1])))))]


def cstr_last(I, w, ci, args):
    a = args[0]
    for _ in range(3):
        if a[0] == 'ref':
            a = I.read(w, a[1])
    if a[0] != 'cstr':
        return None
    return [(w, some(('ref', ('const', const_int(a[1][-1])))) if a[1] else none())]


MODELS['core::str::<impl str>::split_once'] = cstr_split_once
MODELS['core::slice::<impl [T]>::split_last'] = cstr_split_last
MODELS['core::slice::<impl [T]>::last'] = cstr_last
MODELS['core::str::<impl str>::strip_prefix'] = cstr_strip_prefix
MODELS['core::str::<impl str>::strip_suffix'] = cstr_strip_suffix
MODELS['core::str::<impl str>::ends_with'] = cstr_ends_with
MODELS['core::str::<impl str>::get_unchecked'] = cstr_get
MODELS['core::str::<impl str>::starts_with'] = cstr_starts_with


def _known_array(I, w, a):
    """items of an array value whose every element is known (`&[x, y, z]`), else None"""
    window = None
    for _ in range(3):
        if a[0] == 'ref':
            a = I.read(w, a[1])
        elif a[0] == 'sliceref':
            st, ln = int_singleton(a[2]) if is_int(a[2]) else None, int_singleton(a[3]) if is_int(a[3]) else None
            if st is None or ln is None:
                return None
            window = (st, ln)
            a = I.read(w, a[1])
    if a[0] != 'arr' or not a[1]:
        return None
    idx = [i for i, _ in a[1]]
    if idx != list(range(len(idx))):
        return None
    items = tuple(x for _, x in a[1])
    if window is not None:
        if window[0] + window[1] > len(items):
            return None
        items = items[window[0]:window[0] + window[1]]
    return items


def into_iter(I, w, ci, args):
    # `impl<I: Iterator> IntoIterator for I`: an iterator converts into itself
    if ci.nresolved == '<I as core::iter::traits::collect::IntoIterator>::into_iter':
        return [(w, args[0])]
    items = _known_array(I, w, args[0]) if args else None
    if items is not None:
        # iteration over a literal array / slice of known elements (`for seq in &[a, b]`): a finite, ordered stream
        return [(w, ('citer', items))]
    return None


def slice_iter_known(I, w, ci, args):
    items = _known_array(I, w, args[0]) if args else None
    if items is not None:
        return [(w, ('citer', items))]
    return None


def iter_next_known(I, w, ci, args):
    if not args or args[0][0] != 'ref':
        return None
    v = I.read(w, args[0][1])
    if v[0] != 'citer':
        return None
    if not v[1]:
        return [(w, none())]
    w2 = I.write(w, args[0][1], ('citer', v[1][1:]))
    return [(w2, some(('ref', ('const', v[1][0]))))]


MODELS['core::iter::traits::collect::IntoIterator::into_iter'] = into_iter
MODELS['core::slice::<impl [T]>::iter'] = slice_iter_known
MODELS['core::iter::traits::iterator::Iterator::next'] = iter_next_known


def _clone(I, w, ci, args):
    # derived Clone impls of local types are structural copies; inline would do the same field by field
    return clone(I, w, ci, args)


def _eq(I, w, ci, args):
    if ci.resolved and F.raw_key(ci.resolved) in I.by_path:
        return None
    return str_eq(I, w, ci, args)


for _k in list(MODELS):
    if _k.startswith('core::str::') and _k.count('::') == 2:
        MODELS['core::str::<impl str>::' + _k.rsplit('::', 1)[1]] = MODELS[_k]
    if _k.startswith('core::slice::') and _k.count('::') == 2:
        MODELS['core::slice::<impl [T]>::' + _k.rsplit('::', 1)[1]] = MODELS[_k]
MODELS['core::clone::Clone::clone'] = _clone
MODELS['core::cmp::PartialEq::eq'] = _eq


def _ne(I, w, ci, args):
    r = _eq(I, w, ci, args)
    if r is None:
        return None
    return [(w2, TRUE if v == FALSE else FALSE if v == TRUE else v) for w2, v in r]


MODELS['core::cmp::PartialEq::ne'] = _ne


def option_copied(I, w, ci, args):
    """Option<&T>::copied / cloned for plain values"""
    out = []
    for v in I.split_value(args[0], OPTION):
        if v[0] != 'adt':
            return None
        if v[2] == 0:
            out.append((w, none()))
        else:
            x = v[3][0]
            if x[0] == 'ref':
                x = I.read(w, x[1])
            out.append((w, some(x)))
    return out


MODELS['core::option::Option::copied'] = option_copied
MODELS['core::option::Option::cloned'] = option_copied
