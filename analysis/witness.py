"""Compile-fail witnesses: rustc's own type / privacy check as the deciding step.

`fixtures/witness` holds doc tests `compile_fail,E0xxx` (application code that must NOT type-check against the crate under
analysis) and compiling twins.  `run()` copies the harness to a scratch directory, points its path dependency at the tree
under analysis, reuses that tree's lock file (nothing is resolved or fetched) and runs `cargo +nightly test --doc`
(nightly: the stable toolchain ignores the error codes).  compile_fail and no_run tests are only *compiled*.
-> list of (witness name, kind, ok, detail)"""
import os
import re
import shutil
import subprocess
import tempfile

from . import facts as F


FIELD_WITNESSES = {
    # type -> (how application code gets hold of a value, a compiling use of it)
    'autocomplete::Autocompletion': (
        "let mut buf = [0u8; 8];\nlet mut a = embedded_cli::autocomplete::Autocompletion::new(&mut buf);",
        "a.merge_autocompletion(\"x\");", "a"),
    'writer::Writer': (
        "fn f<W: embedded_io::Write<Error = E>, E: embedded_io::Error>(w: &mut embedded_cli::writer::Writer<'_, W, E>) {",
        "let _ = w.write_str(\"x\");\n}", "w"),
}


def generated(lib):
    """per-field privacy witnesses for the current field names of the types application code is handed"""
    out = []
    for adt, (intro, use, var) in sorted(FIELD_WITNESSES.items()):
        a = lib.adts_n.get(adt)
        if a is None:
            raise F.ExtractError("witness: type %s not found" % adt)
        short = adt.rsplit('::', 1)[-1]
        for fd in a['variants'][0]['fields']:
            nm = "WF_%s_%s" % (short, fd['name'])
            closing = "\n}" if intro.rstrip().endswith('{') else ""
            body_fail = "%s\nlet _ = &%s.%s;\n%s" % (intro, var, fd['name'], use)
            body_twin = "%s\n%s" % (intro, use)
            doc = ["/// field `%s` of `%s` is private to the crate" % (fd['name'], adt), "/// ```compile_fail,E0616"]
            doc += ["/// " + l for l in body_fail.split("\n")]
            doc += ["/// ```", "/// twin:", "/// ```no_run"]
            doc += ["/// " + l for l in body_twin.split("\n")]
            doc += ["/// ```", "pub struct %s;" % nm, ""]
            out.append("\n".join(doc))
    return "\n".join(out)


def run(lib=None):
    src = os.path.join(F.VERIF, 'fixtures', 'witness')
    tmp = tempfile.mkdtemp(prefix='ecli-witness-')
    try:
        dst = os.path.join(tmp, 'witness')
        shutil.copytree(src, dst, ignore=shutil.ignore_patterns('target', 'Cargo.lock'))
        ct = os.path.join(dst, 'Cargo.toml')
        with open(ct) as f:
            txt = f.read()
        with open(ct, 'w') as f:
            f.write(txt.replace('"/repo/embedded-cli"', '"%s/embedded-cli"' % F.REPO))
        if lib is not None:
            with open(os.path.join(dst, 'src', 'lib.rs'), 'a') as f:
                f.write("\n" + generated(lib))
        lock = os.path.join(F.REPO, 'Cargo.lock')
        if os.path.exists(lock):
            shutil.copy(lock, os.path.join(dst, 'Cargo.lock'))
        env = dict(os.environ, CARGO_NET_OFFLINE='true', CARGO_TARGET_DIR=os.path.join(tmp, 'target'))
        env.pop('RUSTC_WRAPPER', None)
        env.pop('RUSTC_WORKSPACE_WRAPPER', None)
        p = subprocess.run(['cargo', '+nightly', 'test', '--doc', '--offline'], cwd=dst, env=env,
                           stdout=subprocess.PIPE, stderr=subprocess.STDOUT, text=True)
        out = p.stdout
        results = []
        for m in re.finditer(r'^test src/lib\.rs - (\w+) \(line (\d+)\)( - compile fail| - compile)? \.\.\. (\w+)', out, re.M):
            name, line, kind, verdict = m.group(1), int(m.group(2)), (m.group(3) or '').strip(' -'), m.group(4)
            results.append((name, 'witness' if 'fail' in kind else 'twin', verdict == 'ok', "line %d: %s" % (line, verdict)))
        if not results:
            raise F.ExtractError("witness harness produced no doc-test results:\n" + out[-3000:])
        return results, out
    finally:
        shutil.rmtree(tmp, ignore_errors=True)
