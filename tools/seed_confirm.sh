#!/bin/sh
# tools/seed_confirm.sh <Cxx> [extra cargo args for the demo]: confirm an agent's seeded change in its scratch worktree /tmp/wt-<Cxx>
# (suite passes with the patch; demo fails with it and passes without it). The demo must be a single file for embedded-cli/tests/.
ID="$1"; shift
EXTRA="$@"
WT=${WTBASE:-/tmp/wt}-$ID; OUT=${OUTBASE:-/tmp/seed-out}/$ID
DEMO=$(ls $OUT/demo/*.rs 2>/dev/null | head -1)
[ -z "$DEMO" ] && { echo "no demo .rs"; exit 2; }
NAME=$(basename $DEMO .rs)
cd $WT || exit 2
git stash -q -u 2>/dev/null; git checkout -q -- . ; git clean -fdq -e target
git apply $OUT/patch.diff || { echo "patch does not apply"; exit 2; }
S=$(cargo test --workspace --offline 2>&1 | grep -E "^test result" | awk '{p+=$4; f+=$6} END {print p" passed "f" failed"}')
echo "suite with patch: $S"
cp $DEMO embedded-cli/tests/$NAME.rs
A=$(cargo test -p embedded-cli --offline --test $NAME $EXTRA 2>&1 | grep -E "^test result|error(\[|:)" | head -3)
echo "demo with patch: $A"
git apply -R $OUT/patch.diff
B=$(cargo test -p embedded-cli --offline --test $NAME $EXTRA 2>&1 | grep -E "^test result|error(\[|:)" | head -3)
echo "demo without patch: $B"
git checkout -q -- . ; git clean -fdq -e target
