#!/usr/bin/env python3
"""Write equivalent/<id>/meta.json from the agent's report and the check matrix (caught.txt must list no firing check)."""
import json
import os
import re

VERIF = os.path.dirname(os.path.dirname(os.path.abspath(__file__)))
for sid in sorted(os.listdir(os.path.join(VERIF, "equivalent"))):
    d = os.path.join(VERIF, "equivalent", sid)
    if not os.path.isdir(d):
        continue
    am = json.load(open(os.path.join(d, "agent_meta.json")))
    fires = []
    kp = os.path.join(d, "caught.txt")
    if os.path.exists(kp):
        fires = [l.split(':')[0] for l in open(kp) if re.match(r'^C\d\d', l)]
    meta = dict(
        id=sid, property=am.get("property", sid[:3]),
        origin="fresh sub-agent asked for a behaviour-preserving refactoring (prompt.txt); given only the property text and its own scratch worktree",
        summary=am.get("summary"), why_equivalent=am.get("why_equivalent"), files=am.get("files"),
        agent_verified=am.get("verified"),
        what_i_ran=["tools/seed_matrix.py --dir equivalent %s   # every registered check against a scratch worktree with the patch applied" % sid],
        checks_that_fire=fires,
        verdict="silent on all checks" if not fires else "FALSE ALARM (documented in DESIGN.md §12 / §8)",
    )
    with open(os.path.join(d, "meta.json"), "w") as f:
        json.dump(meta, f, indent=1)
    print(sid, fires or 'silent')
