#!/bin/sh
# tools/seed_check.sh <patch.diff> [Cxx ...] : apply a seeded change to /repo, run the checks, undo it.
P="$1"; shift
PROPS="$@"
[ -z "$PROPS" ] && PROPS="C01 C02 C04 C05 C06 C07 C10 C11 C12 C13 C14 C15 C16"
cd /repo || exit 2
git diff --quiet || { echo "/repo has uncommitted changes"; exit 2; }
git apply "$P" || { echo "patch does not apply"; exit 2; }
cd /verif
for c in $PROPS; do
  out=$(./check $c 2>&1)
  n=$(echo "$out" | grep -c "^VIOLATION")
  echo "$c: $n violation(s)"
  echo "$out" | grep "violation:" | cut -c1-400
done
cd /repo && git checkout -- . && git status --short | head -3
