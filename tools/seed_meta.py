#!/usr/bin/env python3
"""Write seeded/<id>/meta.json from the agent's report (agent_meta.json), my confirmation (confirm.txt, written by
tools/seed_reconfirm.sh) and the check matrix (caught.txt, written by tools/seed_matrix.py)."""
import json
import os
import re
import sys

VERIF = os.path.dirname(os.path.dirname(os.path.abspath(__file__)))
for sid in sorted(os.listdir(os.path.join(VERIF, "seeded"))):
    d = os.path.join(VERIF, "seeded", sid)
    if not os.path.isdir(d):
        continue
    am = json.load(open(os.path.join(d, "agent_meta.json")))
    confirm = {}
    cp = os.path.join(d, "confirm.txt")
    if os.path.exists(cp):
        for l in open(cp):
            if ':' in l:
                k, v = l.split(':', 1)
                confirm[k.strip()] = v.strip()
    caught = []
    kp = os.path.join(d, "caught.txt")
    if os.path.exists(kp):
        caught = [l.split(':')[0] for l in open(kp) if re.match(r'^C\d\d', l)]
    demo = sorted(f for f in os.listdir(os.path.join(d, "demo")) if f.endswith('.rs'))
    meta = dict(
        id=sid,
        property=am.get("property", sid[:3]),
        origin="fresh sub-agent given only the property text and its own scratch worktree of /repo",
        summary=am.get("summary"),
        needs_to_manifest=am.get("needs"),
        files=am.get("files"),
        demonstration=["demo/" + f for f in demo],
        confirmed_by_me=confirm,
        what_i_ran=[
            "tools/seed_reconfirm.sh %s   # fresh worktree of /repo HEAD: git apply patch.diff; cargo test --workspace --offline; "
            "copy demo to embedded-cli/tests/; cargo test -p embedded-cli --offline --test <demo> with and without the patch" % sid,
            "tools/seed_matrix.py %s      # every registered check against a scratch worktree with the patch applied (ECLI_REPO)" % sid,
        ],
        caught_by=caught,
        own_property_check_fires=am.get("property", sid[:3]) in caught,
    )
    with open(os.path.join(d, "meta.json"), "w") as f:
        json.dump(meta, f, indent=1)
    print(sid, meta["caught_by"], confirm.get("suite with patch"), '|', confirm.get("demo with patch", '')[:40], '|', confirm.get("demo without patch", '')[:40])
