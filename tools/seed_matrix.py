#!/usr/bin/env python3
"""Run every registered check against every seeded change, in parallel worker copies of the repository
(ECLI_REPO points each worker's checks at its own scratch worktree; /repo itself is never modified).
Writes seeded/<id>/caught.txt and prints a summary. Usage: tools/seed_matrix.py [-j N] [seed ids...]"""
import json
import os
import subprocess
import sys
from concurrent.futures import ThreadPoolExecutor

VERIF = os.path.dirname(os.path.dirname(os.path.abspath(__file__)))
ALL = ["C%02d" % i for i in range(1, 18)]
SUB = "seeded"      # or "equivalent": behaviour-preserving changes, on which no check may fire


def run_seed(args):
    sid, slot = args
    wt = "/tmp/mx-%d" % slot
    d = os.path.join(VERIF, SUB, sid)
    subprocess.run(["git", "-C", wt, "checkout", "-q", "--", "."], check=False)
    subprocess.run(["git", "-C", wt, "clean", "-fdq"], check=False)
    p = subprocess.run(["git", "-C", wt, "apply", os.path.join(d, "patch.diff")], capture_output=True, text=True)
    if p.returncode != 0:
        return sid, None, "patch does not apply: " + p.stderr[:200]
    env = dict(os.environ, ECLI_REPO=wt)
    fired = {}
    for c in ALL:
        q = subprocess.run([os.path.join(VERIF, "check"), c], capture_output=True, text=True, env=env)
        out = q.stdout + q.stderr
        n = sum(1 for l in out.splitlines() if l.startswith("VIOLATION"))
        if q.returncode not in (0, 1) or (q.returncode == 1 and not n) or "Traceback" in out:
            # a check that crashes is a broken check, not a catch: keep its output for diagnosis
            with open(os.path.join(d, "crash-%s.txt" % c), "w") as f:
                f.write(out[-6000:])
            fired[c + "(CRASH)"] = [out.strip().splitlines()[-1][:300]] if out.strip() else []
            continue
        if n:
            fired[c] = [l.strip()[:300] for l in out.splitlines() if "violation:" in l][:3]
    subprocess.run(["git", "-C", wt, "checkout", "-q", "--", "."], check=False)
    with open(os.path.join(d, "caught.txt"), "w") as f:
        for c, ls in fired.items():
            f.write("%s: fires\n" % c)
            for l in ls:
                f.write("    %s\n" % l)
        if not fired:
            f.write("(no check fires)\n")
    return sid, sorted(fired), None


def main():
    argv = sys.argv[1:]
    global SUB
    if argv[:1] == ["--dir"]:
        SUB = argv[1]
        argv = argv[2:]
    j = 4
    if argv[:1] == ["-j"]:
        j = int(argv[1])
        argv = argv[2:]
    seeds = argv or sorted(d for d in os.listdir(os.path.join(VERIF, SUB)) if os.path.isdir(os.path.join(VERIF, SUB, d)))
    for s in range(j):
        wt = "/tmp/mx-%d" % s
        if not os.path.isdir(wt):
            subprocess.run(["git", "-C", "/repo", "worktree", "add", "-q", "--detach", wt, "HEAD"], check=True)
    # evidence files are written by each check: keep the committed ones out of the way
    slots = list(range(j))
    results = []
    import queue
    q = queue.Queue()
    for s in slots:
        q.put(s)

    def work(sid):
        slot = q.get()
        try:
            return run_seed((sid, slot))
        finally:
            q.put(slot)
    with ThreadPoolExecutor(max_workers=j) as ex:
        for sid, fired, err in ex.map(work, seeds):
            print("== %s: %s" % (sid, err or (" ".join(fired) if fired else "MISSED")), flush=True)
    for s in range(j):
        subprocess.run(["git", "-C", "/repo", "worktree", "remove", "--force", "/tmp/mx-%d" % s], check=False)


if __name__ == "__main__":
    main()
