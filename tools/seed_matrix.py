#!/usr/bin/env python3
"""Run every registered check against every seeded change, in parallel worker copies of the repository
(ECLI_REPO points each worker's checks at its own scratch worktree; /repo itself is never modified).
Writes seeded/<id>/caught.txt and prints a summary. Usage: tools/seed_matrix.py [--dir equivalent] [--base N] [--checks own,Cxx,Cyy?] [-j N] [seed ids...]"""
import json
import os
import subprocess
import sys
from concurrent.futures import ThreadPoolExecutor

VERIF = os.path.dirname(os.path.dirname(os.path.abspath(__file__)))
ALL = ["C%02d" % i for i in range(1, 18)]
CHECKS = None       # --checks own,C17?,C09: a subset (own = the seed's property, Cxx? = only if caught.txt lists Cxx); results are merged
BASE = 0            # first worktree slot (--base N: concurrent invocations use disjoint /tmp/mx-N)
SUB = "seeded"      # or "equivalent": behaviour-preserving changes, on which no check may fire


def run_seed(args):
    sid, slot = args
    wt = "/tmp/mx-%d" % (BASE + slot)
    d = os.path.join(VERIF, SUB, sid)
    subprocess.run(["git", "-C", wt, "checkout", "-q", "--", "."], check=False)
    subprocess.run(["git", "-C", wt, "clean", "-fdq"], check=False)
    p = subprocess.run(["git", "-C", wt, "apply", os.path.join(d, "patch.diff")], capture_output=True, text=True)
    if p.returncode != 0:
        return sid, None, "patch does not apply: " + p.stderr[:200]
    env = dict(os.environ, ECLI_REPO=wt)
    fired = {}
    todo = ALL
    old = {}
    if CHECKS is not None:
        cpath = os.path.join(d, "caught.txt")
        cur = None
        if os.path.exists(cpath):
            for l in open(cpath):
                if l.startswith("C") and ": fires" in l:
                    cur = l.split(":")[0]
                    old[cur] = []
                elif cur and l.startswith("    "):
                    old[cur].append(l.strip())
        todo = []
        for t in CHECKS:
            if t == "own":
                t = sid[:3]
            elif t.endswith("?"):
                t = t[:-1]
                if not any(k.startswith(t) for k in old):
                    continue
            if t not in todo:
                todo.append(t)
        fired = {k: v for k, v in old.items() if k[:3] not in todo}
    for c in todo:
        q = subprocess.run([os.path.join(VERIF, "check"), c], capture_output=True, text=True, env=env)
        out = q.stdout + q.stderr
        n = sum(1 for l in out.splitlines() if l.startswith("VIOLATION"))
        if q.returncode not in (0, 1) or (q.returncode == 1 and not n) or "Traceback" in out:
            # a check that crashes is a broken check, not a catch: keep its output for diagnosis
            with open(os.path.join(d, "crash-%s.txt" % c), "w") as f:
                f.write(out[-6000:])
            fired[c + "(CRASH)"] = [out.strip().splitlines()[-1][:300]] if out.strip() else []
            continue
        if n:
            fired[c] = [l.strip()[:300] for l in out.splitlines() if "violation:" in l][:3]
    subprocess.run(["git", "-C", wt, "checkout", "-q", "--", "."], check=False)
    with open(os.path.join(d, "caught.txt"), "w") as f:
        for c, ls in sorted(fired.items()):
            f.write("%s: fires\n" % c)
            for l in ls:
                f.write("    %s\n" % l)
        if not fired:
            f.write("(no check fires)\n")
    return sid, sorted(fired), None


def main():
    argv = sys.argv[1:]
    global SUB, BASE, CHECKS
    if argv[:1] == ["--dir"]:
        SUB = argv[1]
        argv = argv[2:]
    if argv[:1] == ["--base"]:
        BASE = int(argv[1])
        argv = argv[2:]
    if argv[:1] == ["--checks"]:
        CHECKS = argv[1].split(",")
        argv = argv[2:]
    j = 4
    if argv[:1] == ["-j"]:
        j = int(argv[1])
        argv = argv[2:]
    seeds = argv or sorted(d for d in os.listdir(os.path.join(VERIF, SUB)) if os.path.isdir(os.path.join(VERIF, SUB, d)))
    for s in range(j):
        wt = "/tmp/mx-%d" % (BASE + s)
        if not os.path.isdir(wt):
            subprocess.run(["git", "-C", "/repo", "worktree", "add", "-q", "--detach", wt, "HEAD"], check=True)
    # evidence files are written by each check: keep the committed ones out of the way
    slots = list(range(j))
    results = []
    import queue
    q = queue.Queue()
    for s in slots:
        q.put(s)

    def work(sid):
        slot = q.get()
        try:
            return run_seed((sid, slot))
        finally:
            q.put(slot)
    with ThreadPoolExecutor(max_workers=j) as ex:
        for sid, fired, err in ex.map(work, seeds):
            print("== %s: %s" % (sid, err or (" ".join(fired) if fired else "MISSED")), flush=True)
    for s in range(j):
        subprocess.run(["git", "-C", "/repo", "worktree", "remove", "--force", "/tmp/mx-%d" % (BASE + s)], check=False)


if __name__ == "__main__":
    main()
