#!/bin/sh
# tools/seed_reconfirm.sh <seed-id>: re-confirm a kept seeded change from /verif/seeded/<id> in a fresh scratch worktree of /repo
# (the suite passes with the patch; the demonstration fails with it and passes without it); writes seeded/<id>/confirm.txt and
# removes the worktree together with its build output.
ID="$1"; shift
EXTRA="$@"     # extra cargo arguments for the demonstration (feature flags)
V=$(cd "$(dirname "$0")/.." && pwd)
D=$V/seeded/$ID
WT=/tmp/rc-$ID
DEMO=$(ls $D/demo/*.rs | head -1); NAME=$(basename $DEMO .rs)
git -C /repo worktree add -q --detach $WT HEAD || exit 2
cd $WT || exit 2
export CARGO_NET_OFFLINE=true CARGO_TARGET_DIR=$WT/target
{
echo "base: $(git -C /repo rev-parse --short HEAD)"
[ -n "$EXTRA" ] && echo "demo flags: $EXTRA"
git apply $D/patch.diff || echo "patch does not apply"
S=$(cargo test --workspace --offline 2>&1 | grep -E "^test result" | awk '{p+=$4; f+=$6} END {print p" passed "f" failed"}')
echo "suite with patch: $S"
cp $DEMO embedded-cli/tests/$NAME.rs
A=$(cargo test -p embedded-cli --offline --test $NAME $EXTRA 2>&1 | grep -E "^test result|^error(\[|:)" | head -3)
echo "demo with patch: $A"
git apply -R $D/patch.diff
B=$(cargo test -p embedded-cli --offline --test $NAME $EXTRA 2>&1 | grep -E "^test result|^error(\[|:)" | head -3)
echo "demo without patch: $B"
} > $D/confirm.txt 2>&1
cd /; git -C /repo worktree remove --force $WT
cat $D/confirm.txt
