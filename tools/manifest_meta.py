"""Per-property MANIFEST entries (kept next to the generator so that MANIFEST.json is always regenerated whole)."""

TB = ("Trusted: rustc's MIR construction and callee resolution, the ecli-mirdump fact dumper, the abstract "
      "interpreter and its std-combinator models (analysis/absint.py, analysis/models.py), and the reference "
      "tables under specs/. Unwind edges are not followed.")

ENGINES = [
    {"name": "E1 ecli-mirdump", "path": "driver/", "kind_free_text": "rustc_private driver: MIR (opt-level 0), resolved callees, evaluated constants, ADTs as JSON, injected via RUSTC_WORKSPACE_WRAPPER under cargo +nightly check",
     "serves_properties": []},
    {"name": "E2/E4 abstract interpreter", "path": "analysis/absint.py", "kind_free_text": "disjunctive abstract interpretation of MIR (value sets, predicates, variant-refined enums), interprocedural by inlining with rule-defined events; typestate products and finite-state extraction",
     "serves_properties": []},
]

NOTES = ("Static analysis only: no registered check executes the library. Every check re-extracts facts from /repo's "
         "current working tree (cache keyed by a hash of the tree).")

IMP = (" Also re-decides, and reports under this property, the sibling clauses its argument rests on "
       "(DESIGN.md §4 `Imported clauses`): ")

CLAIMED = {
    "C15": {
        "engine": "E2 typestate over interprocedural MIR",
        "technique": "typestate dataflow (clean/dirty) over the interprocedural MIR CFG with outcome-aware summaries",
        "text": ("Decides, for every path of every public Cli entry point (all 8 feature configurations in the thorough tier), "
                 "that a successful return is preceded by a sink flush after the last sink write or user callback that was handed "
                 "a writer. This is the whole property for the code's shape: it covers every key sequence, handler behaviour and "
                 "sink outcome without sampling any."),
        "design_ref": "DESIGN.md §4 C15, §2 E2",
        "note": TB + " Assumes Cli.editor/input_generator are Some at entry (C14 establishes it).",
    },
}

NOT_APPLICABLE = {}

CLAIMED["C14"] = {
    "engine": "E2 typestate / error-atom flow over interprocedural MIR",
    "technique": "interprocedural typestate + error-value flow analysis over MIR (sink error followed as an atom through ?, From, or_else, matches); effect analysis of Editor methods",
    "text": ("Decides four clauses for every path and every sink outcome: (P) on any path where the sink, the handler, a help callback "
             "or the Cli::write closure reported a sink error, the public entry (Cli and Writer methods; every derive-generated "
             "Help/processor impl in the corpus) returns Err carrying that error; (a) Cli.editor/input_generator are Some at every "
             "exit; (b) after the edit buffer was handed out for in-place rewriting an editor reset precedes every exit, Ok or Err; "
             "(c) per key, the editor mutations applied on an Err exit are none, a complete Ok sequence, or end in a reset. "
             "Not decided: that later input is decoded normally (C04) and that a later Enter dispatches only typed text beyond (a)+(b)."),
    "design_ref": "DESIGN.md §4 C14",
    "note": TB + " User code is modelled as returning any value of its declared type; generated impls are analysed compositionally "
                 "(a call to another generated impl is summarised by its declared outcomes, and that impl is an entry itself).",
}

CLAIMED["C13"] = {
    "engine": "E2 taint-with-sanitiser + framing typestate over interprocedural MIR",
    "technique": "taint analysis with a proved LF sanitiser (search predicate evaluated abstractly), a framing typestate over the interprocedural MIR CFG, and finite-state extraction of the Writer's dirty tracking over text shapes explored to closure",
    "text": ("Decides (S) that on every path of every public Writer method taking text, the bytes handed to the sink are the LF-free part "
             "before an LF found by a search proved to test byte==0x0A, the text on the not-found edge, an LF-free constant, or CR LF "
             "directly after such a part, that the scan resumes one byte after the LF and that the whole text is consumed before Ok; "
             "(F) that after user output every path consults Writer::is_dirty and writes CR LF exactly on the true edge before any "
             "other sink write or successful return; (W) that Cli::write performs no editor mutation; (D) the Writer's dirty tracking, extracted "
             "as a finite-state machine over text shapes and explored to closure over every sequence of write_str / writeln_str calls (empty "
             "writes included): is_dirty() holds iff something was written and it does not end with a line break. Not decided: the redisplay "
             "of the line (C06)."),
    "design_ref": "DESIGN.md §4 C13",
    "note": TB + " The sanitiser idiom recognised is position-based scanning; another correct idiom makes the check fail closed.",
}

SESSION = ("event words of Cli::process_byte per key, obtained by one abstract interpretation of the interprocedural MIR "
           "(every path, every sink/handler/callback outcome; core-type methods as events with symbolic results)")

CLAIMED["C01"] = {
    "engine": "E2 event words + def-use atoms",
    "technique": "interprocedural event-word analysis over MIR with symbolic value atoms (who-may-call, exactly-once, provenance of the dispatched command)",
    "text": ("Decides on the " + SESSION + ": only Enter reaches CommandProcessor::process and never twice; the Enter arm starts with CR LF, "
             "tokenises exactly the edit buffer, builds the raw command from exactly those tokens and dispatches exactly that command once "
             "iff there is a token and (help on) it is not a help request; every Ok path of the Enter arm (also one that returns before "
             "tokenising) ends with editor reset, one prompt, flush; history is "
             "pushed from Editor::text before the rewrite; from_tokens returns (first token, rest) and None iff no first token. "
             "Not decided as a value: equality of the tokens with the line after arbitrary editing." + IMP +
             "C04 (key decoding), C05 (editor operations), C06.sync (the visible line is the editor's), C07 (tokenisation), C08.classify, "
             "C10.recall-entry/whole-entry (a recall replaces the line by one whole stored entry) and C11.line-content (a completion adds only "
             "the completed bytes and at most one blank)."),
    "design_ref": "DESIGN.md §4 C01",
    "note": TB,
}
CLAIMED["C05"] = {
    "engine": "E2 event words + effect analysis",
    "technique": "key->operation table from interprocedural event words; effect analysis (abstract interpretation) of Editor methods for reject purity and cursor moves; unit (dimension) analysis and buffer-content segment algebra in a linear abstract domain with Fourier-Motzkin entailment",
    "text": ("Decides the key->editor-operation table for every path (Char: one insert of the typed text; Backspace: move_left then remove iff "
             "moved, adjacent; Left/Right: the single move; Tab: autocompletion only), that the rejecting exits of insert/move_left/move_right "
             "write nothing, and that the moves change the cursor by exactly one with move_left guarded by cursor>0. "
             "Character units: Editor::len is the character count, move_right is guarded by cursor < len(), a completion leaves the cursor at len(). "
             "Unit analysis of every Editor method in the linear domain: characters (cursor, char_count results) and bytes (valid, lengths, "
             "capacities, byte offsets) are never combined in a comparison, index or bounds check, and the cursor / valid fields keep their unit. "
             "Content effects by a segment algebra over the linear domain, for every buffer content, size, cursor and text: an accepted "
             "insert(t) leaves text[..i] ++ t ++ text[i..] with i = char_byte_index(text, cursor) (or the end), valid + len(t), cursor + "
             "char_count(t) and returns the inserted copy; remove() leaves text[..i] ++ text[j..] with j the next character's offset; clear() "
             "zeroes both. Not decided: Editor::autocompletion's content effect; the capacity guard as arithmetic is under C03." + IMP +
             "C17.counting / C17.A (char_count and char_byte_index count scalars)."),
    "design_ref": "DESIGN.md §4 C05",
    "note": TB,
}
CLAIMED["C10"] = {
    "engine": "E2 event words + field-fact typestate",
    "technique": "event-word analysis of the history wiring; field-fact abstract interpretation of History methods (cursor = None at every exit of push); linear-domain abstract interpretation with Fourier-Motzkin entailment for push's space accounting; index-provenance classification of comparisons with stored text",
    "text": ("Decides the wiring (push from Editor::text before the rewrite; Up->next_older, Down->next_newer; a recalled element replaces the "
             "line; past-oldest does nothing; past-newest leaves the empty line), that a submit ends navigation (cursor None at every exit of "
             "the History method the Enter arm calls), that recall never writes the store, the space accounting of push on every path and for every "
             "capacity in the linear domain (a path that removes an older copy leaves `used` unchanged; a path that moves nothing records nothing "
             "or appends exactly len+1; eviction only where used+len+1 > capacity), and that every comparison of the submitted line with stored "
             "text is with a slice starting at an entry start. Content effects by a segment algebra over the linear domain (every content, "
             "capacity and line): after push the bytes in use are stored bytes in their old order, the line, one NUL; dropped are at most one "
             "len+1 range at an entry start (the older copy) and at most one prefix ending just after the first NUL at or beyond the bytes "
             "that must be freed (or everything when nothing less suffices); next_older / next_newer return exactly the entry directly "
             "before / after the current position (start at an entry start, end at the next NUL) and move the cursor to its start. "
             "Not decided: the byte-wise equality of the deduplication test as a value; the NUL-separated representation itself is C03's "
             "assumed invariant."),
    "design_ref": "DESIGN.md §4 C10",
    "note": TB,
}
CLAIMED["C12"] = {
    "engine": "E2 event words + E4 decision table",
    "technique": "routing by interprocedural event words; decision-table extraction of HelpRequest::from_command by abstract interpretation; bounded-exhaustive abstract exploration of derive-generated help code against a declaration oracle",
    "text": ("Decides routing (the help check directly follows command construction; a request never reaches the handler; All->list_commands, "
             "Command->command_help on the requested command; unknown -> `error: unknown command`), the complete decision table of "
             "HelpRequest::from_command against the statement, and for the declaration corpus the derive-generated help: list_commands / "
             "command_count / group listing against the oracle, UnknownCommand for undeclared names, the option-skipping walker on every argument "
             "word up to the depth bound (own help vs. delegation to the right sub-command), and the presence of usage path, positionals, every "
             "option with its names and value name, `-h, --help` and the sub-command list in a command's own help; and sibling agreement: for "
             "every explored word the derived help walker and the derived parser pick the same token as sub-command name; a group's command_help "
             "asks its visible members in declaration order, the next only after UnknownCommand, hidden ones never, and gives up only after "
             "all of them. Not decided: text layout, "
             "declarations outside the corpus." + IMP + "C08.classify (help options are found among ArgsIter's classified items)."),
    "design_ref": "DESIGN.md §4 C12",
    "note": TB,
}

FSM = ("finite-state extraction by abstract interpretation of the MIR over byte classes (value-set domain, trace partitioning, "
       "fixpoint over the finite abstract state space) and product exploration to closure against a reference written from the statement")

CLAIMED["C02"] = {
    "engine": "E4 finite-state extraction + equivalence",
    "technique": FSM + "; index-provenance abstract interpretation in a linear domain for every unchecked text construction",
    "text": ("Decides for all byte streams: the scalar decoder (Utf8Accum) emits, in every reachable state and for every input byte, exactly one "
             "well-formed scalar of Unicode Table 3-7 or nothing; from every reachable state any well-formed sequence is decoded to itself "
             "(resynchronisation); the answer is a function of (state, byte). The alphabet is a partition of 0..255 respecting every constant "
             "of the code and of the table, so the result is exact, not sampled. U4: every unchecked construction of text elsewhere "
             "(from_utf8_unchecked[_mut] over a sub-slice, str::get_unchecked) has both ends at a scalar boundary by construction (0, a str "
             "length, the position of an ASCII byte found by an abstractly evaluated search, a result of char_byte_index/common_prefix_len, or a "
             "field holding such a position inductively), and stores into text buffers are ASCII or copies of str bytes at such offsets. "
             "That the counting helpers return boundaries follows from U2 and C17.D; History.used/cursor rest on the "
             "NUL-separation invariant assumed in C03." + IMP + "C17.counting (char_byte_index / common_prefix_len stop on scalar boundaries) "
             "and C14.reset/atomic."),
    "design_ref": "DESIGN.md §4 C02, §2 E4, App. B.1",
    "note": TB + " specs/utf8.py transcribes Table 3-7.",
}
CLAIMED["C04"] = {
    "engine": "E4 finite-state extraction + equivalence",
    "technique": FSM,
    "text": ("Decides, exactly on the quantified language (streams of key units of any length): InputGenerator's byte-accepting method, with "
             "the scalar decoder and bitflags helpers inlined, agrees with the reference key decoder in every reachable pair of states for "
             "every byte class: one Char per well-formed scalar from U+0020, BS/TAB, greedy CR LF / LF CR pairing with N terminators -> N "
             "Enters, CSI arrows, nothing leaking from a control sequence, other C0 ignored; DEL unconstrained."),
    "design_ref": "DESIGN.md §4 C04, App. B.2",
    "note": TB + " specs/keydecoder.py is the reference; streams outside the quantified language (ill-formed UTF-8, malformed CSI) are not compared.",
}
CLAIMED["C07"] = {
    "engine": "E4 finite-state extraction + equivalence",
    "technique": FSM,
    "text": ("Decides, for all NUL-free lines of any length: the loop of Tokens::new, extracted as a transducer (state = source variables live "
             "across the back edge, input = byte class loaded at the loop index, output = stores into the same buffer), is equivalent to the "
             "reference tokenizer written from the statement (separator before every token after the first, quotes special only at token start, "
             "backslash escapes inside quotes, unterminated quote / trailing backslash end the token, bytes >= 0x80 never special); the returned "
             "`empty` flag equals `no token started`; TokensIter::next splits at each separator (decision table). The round-trip law is argued on "
             "the reference and transferred by equivalence."),
    "design_ref": "DESIGN.md §4 C07, App. B.3",
    "note": TB + " specs/tokenizer.py is the reference.",
}

CLAIMED["C06"] = {
    "engine": "E5 terminal/editor algebra over E2 event words",
    "technique": "event words with symbolic guards extracted by abstract interpretation of MIR, composed with editor-operation and ECMA-48 effects and checked for synchronisation on every start shape up to a length bound",
    "text": ("Decides that every successful path of every key arm, of Cli::write and of Cli::set_prompt (all paths and outcomes from the MIR, "
             "guards on cursor/len kept, counted loops summarised by their trip count) maps a synchronised terminal/editor state to a "
             "synchronised one, for every start state with up to 3 characters on each side of the cursor, two prompts (thorough tier, all "
             "features on: 4 characters, three prompts) and every modelled "
             "typed/recalled/completed text; codes::* are compared with ECMA-48. Not decided: display width other than 1, wrapping, and "
             "what depends on the editor being an ideal editor (C05's undecided part)." + IMP +
             "C13.dirty/framing/sanitise (`not dirty` means column 0 when the line is redrawn after application output) and C05 (the effect "
             "model's editor operations are the real ones)."),
    "design_ref": "DESIGN.md §4 C06, App. B.5",
    "note": TB + " Editor content effects (insert/remove at the cursor) are taken as specified.",
}
CLAIMED["C11"] = {
    "engine": "pipeline extraction + table evaluation",
    "technique": "abstract interpretation of derive-generated code (iterator pipeline, predicates and for-each body extracted symbolically) evaluated on the declared constant table for every prefix request; sibling agreement with a declaration oracle",
    "text": ("Decides for every derived Autocomplete impl of the corpus that exactly the names starting with the request reach "
             "merge_autocompletion as `n[len(request)..]`, for every request that is a prefix of a declared name (truncating adaptors over "
             "non-contiguous tables are reported with the names lost); group impls consult each visible member once and hidden ones never; "
             "the Tab arm maps to one Editor::autocompletion whose closure merges the built-in help candidate iff `help` starts with the "
             "request; merge_autocompletion on every path (linear domain): `partial` is sticky, is set by every merge into a non-empty state, and "
             "the kept length is at most the candidate, the previous and the buffer length; the content effect of Editor::autocompletion on the "
             "line (segment algebra) and that the completed word handed out by Request::from_input is the text from its first non-blank "
             "(0x20) byte to its end, nothing else stripped. Not decided: that the kept prefix is the longest "
             "common continuation as a value (common_prefix_len: C17.D), buffer bounds (C03)."),
    "design_ref": "DESIGN.md §4 C11",
    "note": TB + " Quantifier over declarations is bounded by the corpus (fixtures/decls, integration tests, examples/desktop).",
}

CLAIMED["C16"] = {
    "engine": "rustc x8 + manifest rule + E6 cross-configuration MIR differencing + event-word equality",
    "technique": "type-check of all 8 feature sets; Cargo manifest rule; cross-configuration differencing of normalised MIR (ownership and non-interaction of features); equality of interprocedural event words between configurations after erasing the disabled facility",
    "text": ("Decides for all 8 combinations: the library and its test targets type-check; the manifest forwards autocomplete/help to the macros "
             "crate's same-named features and history to nothing; the functions removed / changed by a combination are exactly the union of what "
             "its disabled features remove / change alone (no interaction), with the facility's items anchored; and the event words of "
             "Cli::process_byte, Cli::write and Cli::set_prompt (every path and outcome) are identical to the full configuration's except that "
             "Up/Down (history off) and Tab (autocomplete off) have the empty word, the history push disappears from Enter, and (help off) the "
             "help decision disappears and every command is dispatched; and (G) the derive output for the declaration corpus is identical across "
             "feature sets except for the impls of the disabled facility itself. Imported: C09.parse on corpus module d13 (a user option "
             "named `h` is parsed like any other, so a help-off build does not lose it)."),
    "design_ref": "DESIGN.md §4 C16, §2 E6",
    "note": TB + " The behaviour compared is the event-word abstraction (which operations, in which order, on which values), not concrete runs.",
}

CLAIMED["C03"] = {
    "engine": "E3 linear guard entailment over MIR (+ value-set domain for the byte state machines)",
    "technique": "abstract interpretation of MIR with linear symbolic values and path facts; obligations generated from every Assert terminator and unchecked/panicking call; Fourier-Motzkin entailment; inductive struct invariants; counter lemmas for loops; shortest-path slack lemma on the extracted tokenizer transducer; rustc compile_fail witnesses for encapsulation",
    "text": ("Gives every one of the ~146 obligation sites of the library's MIR (bounds checks, add/sub/shift overflow asserts, preconditions of "
             "get_unchecked*, range indexing, copy_within, copy_nonoverlapping, split_at_mut, unwrap_unchecked, reachable panics) a verdict for all "
             "inputs and all buffer sizes: discharged by entailment from the guards on the path, std/helper contracts (the helpers' own contracts are "
             "proved from their MIR) and three struct invariants that are themselves proved inductively; or assumed (6 sites resting on buffer-content "
             "invariants: NUL termination of history entries, one debug assertion delegated to C02, two sites "
             "unreachable because text_range is only instantiated with RangeFrom - that condition is re-checked on every run) - printed, never counted "
             "as proved; anything else - including a site no analysed path reaches - is a violation. The tokenizer's output-cursor sites "
             "are proved by a slack lemma on its extracted transducer (C07). Encapsulation witnesses (compile_fail doc tests with compiling "
             "twins, generated per field for the types handed to application code) show that user code cannot reach the state the unchecked "
             "operations rely on. The Utf8Accum and encode_utf8 obligations are decided in the value-set domain over the "
             "extracted reachable decoder states / in the callers' context. Not decided: the content invariants." + IMP +
             "C02.boundary (both ends of every unchecked text construction are positions between two scalars) and C17.counting (the helpers "
             "that compute such positions stop on scalar boundaries): the UTF-8 preconditions of from_utf8_unchecked / str::get_unchecked."),
    "design_ref": "DESIGN.md §4 C03, §2 E3",
    "note": TB + " Assumes Buffer::len is stable for a given buffer (true for the two impls in buffer.rs) and that all sizes are <= isize::MAX.",
}

CLAIMED["C08"] = {
    "engine": "E4 decision table + bit-provenance domain",
    "technique": "decision-table extraction of ArgsIter::next by abstract interpretation over token shapes; bit-provenance abstract interpretation of char_pop_front",
    "text": ("Decides the complete classification table of ArgsIter::next (every iterator state x every token shape of the partition induced "
             "by the constants: length 0/1/2/>=3, first/second byte is '-') against the table written from the statement: which Arg, which "
             "sub-slice it carries, how values_only/leftover change, whether a token is consumed; and bit-exactly that char_pop_front takes one "
             "scalar of each encoded length off the front and returns exactly the text after it. Re-joining follows from the table."),
    "design_ref": "DESIGN.md §4 C08, App. B.4",
    "note": TB + " specs/arguments.py is the reference table.",
}
CLAIMED["C17"] = {
    "engine": "E4 transducers + bit-provenance domain + loop step relations",
    "technique": "finite-state extraction and equivalence (decoder identity on every scalar), bit-provenance abstract interpretation (encode_utf8 / char_pop_front bit-exact for each encoded length), loop step relation extraction for the counting helpers",
    "text": ("Decides: (A) from every reachable decoder state every well-formed sequence of every row of Table 3-7 - i.e. every scalar value - is "
             "emitted as itself; (B) with the scalar's payload bits symbolic, encode_utf8 writes exactly the UTF-8 definition's bytes and "
             "char_pop_front reassembles exactly those bits and leaves exactly the following text, for each of the four lengths (hence the "
             "round trip for all 1,112,064 scalars without enumerating them); (C) bytes >= 0x80 are ordinary in every tokenizer state; (D) the "
             "counting helpers feed each byte once, in order, to a fresh accumulator and step their counter iff it reports a scalar; the value "
             "common_prefix_len returns takes the byte count exactly on bytes that complete a scalar and is unchanged on every other byte; "
             "char_count returns that counter; char_byte_index(text, k) returns Some(bytes consumed) exactly when k scalars are complete and the "
             "last consumed byte completed one, None only at the end of the text (k = 0..3, every sequence of decoder answers). "
             "The composition of (A) and (D) into `count = number of scalars` is an argument in DESIGN.md, its premises are what is checked." + IMP +
             "C05.units/move (cursor positions are whole characters) and C12.from_command (no scalar other than `h` is taken for the help option)."),
    "design_ref": "DESIGN.md §4 C17",
    "note": TB + " The UTF-8 bit layout (FORMS in rules/C17.py) and specs/utf8.py are the references.",
}

CLAIMED["C09"] = {
    "engine": "bounded-exhaustive abstract exploration of generated code + E2",
    "technique": "abstract interpretation of derive-generated parsers with the argument iterator as an event, forking over the alphabet of argument shapes for every word up to a depth bound, compared with reference semantics on a declaration oracle; event analysis of generated processors and group parsers; sibling check of the FromArgument instances",
    "text": ("For the declaration corpus (fixtures/decls with a hand-written oracle: unit/struct/tuple variants, positionals, options, flags, every "
             "FromArgument type, Option, default_value, default_value_t, custom short/long/value_name/name, nested sub-commands, groups, hidden "
             "groups) decides that the generated FromRaw::parse yields exactly the variant / field values / error the statement gives, for every "
             "argument word up to the depth bound (3 quick, 4 thorough) over declared and undeclared options, values with succeeding or failing "
             "conversion, `--` and end; that generated processors call the handler exactly when parsing succeeded; that groups try members in "
             "order and pass on only on UnknownCommand; that each of the 16 FromArgument instances parses at and reports its own type; and that "
             "process_error prints one `error:` line. Not decided: declarations outside the corpus, longer words." + IMP +
             "C07 (token stream, `no tokens` vs `one empty token`) and C08.classify."),
    "design_ref": "DESIGN.md §4 C09",
    "note": TB + " fixtures/decls/oracle.json and genfsm.ref_parse are the references.",
}
