#!/usr/bin/env python3
"""Regenerate /verif/MANIFEST.json from tools/manifest_meta.py and validate it against the schema."""
import json
import os
import sys

HERE = os.path.dirname(os.path.abspath(__file__))
VERIF = os.path.dirname(HERE)
sys.path.insert(0, HERE)
import manifest_meta as M  # noqa: E402

props = [json.loads(l)["id"] for l in open(os.path.join(VERIF, "properties.jsonl"))]
checks = []
na = []
for pid in props:
    if pid in M.CLAIMED:
        c = M.CLAIMED[pid]
        checks.append({
            "property_id": pid,
            "quick_cmd": "./check %s --tier quick" % pid,
            "thorough_cmd": "./check %s --tier thorough" % pid,
            "evidence_file": "/verif/evidence/%s.json" % pid,
            "replay_cmd_template": "./check %s --explain {path}" % pid,
            "engine": c["engine"],
            "level_claimed": {"category": c.get("category", "other"), "text": c["text"], "design_ref": c["design_ref"]},
            "level_note": c["note"],
            "technique": c["technique"],
        })
    else:
        na.append({"property_id": pid, "reason": M.NOT_APPLICABLE.get(pid, "check not built yet (see DESIGN.md §9 build order)")})

man = {
    "version": 1,
    "setup_cmd": "cd /verif/driver && CARGO_NET_OFFLINE=true cargo +nightly build --release --offline",
    "hooks": {
        "guard": "none",
        "enable": "n/a: the checker reads the unmodified source through a rustc_private driver injected with RUSTC_WORKSPACE_WRAPPER",
        "baseline_off_cmd": "cd /repo && cargo test --workspace --no-fail-fast --offline",
        "source_commits": [],
        "add_only": True,
    },
    "engines": M.ENGINES,
    "checks": checks,
    "notes": M.NOTES,
    "not_applicable": na,
}
out = os.path.join(VERIF, "MANIFEST.json")
with open(out, "w") as f:
    json.dump(man, f, indent=1)
try:
    import jsonschema
    jsonschema.validate(man, json.load(open("/root/.vp/MANIFEST.schema.json")))
    print("MANIFEST.json valid: %d checks, %d not_applicable" % (len(checks), len(na)))
except ImportError:
    print("jsonschema not importable with this python; wrote MANIFEST.json unvalidated")
