"""Reference argument classification (property C08), from the statement.

Input per step: iterator state (values_only, leftover non-empty?) and, when a token is consumed, its shape:
  length class  0 | 1 | 2 | >=3,   first byte is '-' ?,   second byte is '-' ?
Output: which Arg is produced, what it carries, and the state change.

 "`--` alone ends option parsing and every later token is a plain value"
 "`--name` is the long option `name`"
 "`-abc` is the short options a, b, c, one per Unicode scalar value"   (first scalar now, the rest is left over)
 "anything else, including `-` alone and the empty token, is a value"
 "Nothing is lost or invented: re-joining the classified items reproduces the token list"
"""


def expected(values_only, leftover_nonempty, tok):
    """tok = None (no more tokens) or (lenclass, b0dash, b1dash). -> (result, new_values_only, new_leftover, consumed)"""
    if leftover_nonempty:
        return ('ShortOption(first scalar of leftover)', values_only, 'rest of leftover', False)
    if tok is None:
        return ('None', values_only, 'empty', True)
    ln, d0, d1 = tok
    if values_only:
        return ('Value(token)', True, 'empty', True)
    if ln in ('2', '>=3') and d0:
        if d1:
            if ln == '2':
                return ('DoubleDash', True, 'empty', True)
            return ('LongOption(token[2..])', False, 'empty', True)
        return ('ShortOption(first scalar of token[1..])', False, 'rest of token[1..]', True)
    return ('Value(token)', False, 'empty', True)


def shapes():
    out = [None]
    out.append(('0', False, False))
    for d0 in (True, False):
        out.append(('1', d0, False))
    for ln in ('2', '>=3'):
        for d0 in (True, False):
            for d1 in (True, False):
                out.append((ln, d0, d1))
    return out
