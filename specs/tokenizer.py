"""Reference tokenizer (property C07), over NUL-free lines; written from the statement and the README table.

state = (mode, started)    mode in Space | Normal | Quoted | Unescape;  started = a token has begun
step(state, cls) -> (state', outputs)   outputs: sequence of 'SEP' (token separator) / 'BYTE' (the input byte)

 "A line is split at runs of spaces"                                  Space/Normal on ' '
 "a token that starts with a double quote extends to the next unescaped quote (or the end of the line), may contain
  spaces"                                                              Quoted
 "has backslash-quote and backslash-backslash stand for a literal quote and backslash"   Unescape: emit the byte
 "a new token may start directly after a closing quote"               closing quote -> Space (next byte starts a token)
 "a pair of quotes with nothing between them is an empty token wherever it stands"  SEP is emitted before every token
                                                                       after the first, i.e. iff `started`
 "Tokens carry exactly the characters typed (any UTF-8)"              every other byte, incl. >= 0x80, is emitted as is

Round trip (argued here once; equivalence transfers it to the implementation): render(t) = '"' + t with \\ -> \\\\ and
" -> \\" + '"', tokens joined by one space. By induction over the rendering, each rendered token is read starting in
Space at its opening quote (SEP iff not the first), its body re-emits t byte for byte (every " or \\ of t arrives as
\\" or \\\\ and is emitted by Unescape; no other byte is special in Quoted), its closing quote returns to Space, and
the joining space stays in Space; hence the emitted stream is t1 SEP t2 SEP ... tn with started = (n > 0).
"""
SP, QUOTE, BSLASH = 0x20, 0x22, 0x5C


def boundaries():
    out = set()
    for c in (SP, QUOTE, BSLASH):
        out.update((c, c + 1))
    out.add(0x80)
    out.add(1)          # NUL is outside the quantified lines
    return out


INIT = ('Space', False)


def step(state, cls):
    mode, started = state
    single = min(cls) if len(cls) == 1 else None
    if mode == 'Space':
        if single == QUOTE:
            return ('Quoted', True), (('SEP',) if started else ())
        if single == SP:
            return ('Space', started), ()
        return ('Normal', True), ((('SEP',) if started else ()) + ('BYTE',))
    if mode == 'Normal':
        if single == SP:
            return ('Space', started), ()
        return ('Normal', started), ('BYTE',)      # quotes and backslashes are ordinary inside an unquoted token
    if mode == 'Quoted':
        if single == QUOTE:
            return ('Space', started), ()
        if single == BSLASH:
            return ('Unescape', started), ()
        return ('Quoted', started), ('BYTE',)
    if mode == 'Unescape':
        return ('Quoted', started), ('BYTE',)
    raise ValueError(mode)


def final_empty(state):
    return not state[1]
