"""Reference: well-formed UTF-8 byte sequences, Unicode Standard (15.0) Table 3-7.

Each row is one scalar-value range and the byte ranges of its encoding; L1 (the single-scalar language) is the
union of the rows' products.  C0/C1, F5..FF never occur; E0/ED/F0/F4 restrict their second byte (no overlong
forms, no surrogates, nothing above U+10FFFF)."""

TABLE_3_7 = [
    # (scalar range), byte ranges...
    ((0x0000, 0x007F), [(0x00, 0x7F)]),
    ((0x0080, 0x07FF), [(0xC2, 0xDF), (0x80, 0xBF)]),
    ((0x0800, 0x0FFF), [(0xE0, 0xE0), (0xA0, 0xBF), (0x80, 0xBF)]),
    ((0x1000, 0xCFFF), [(0xE1, 0xEC), (0x80, 0xBF), (0x80, 0xBF)]),
    ((0xD000, 0xD7FF), [(0xED, 0xED), (0x80, 0x9F), (0x80, 0xBF)]),
    ((0xE000, 0xFFFF), [(0xEE, 0xEF), (0x80, 0xBF), (0x80, 0xBF)]),
    ((0x10000, 0x3FFFF), [(0xF0, 0xF0), (0x90, 0xBF), (0x80, 0xBF), (0x80, 0xBF)]),
    ((0x40000, 0xFFFFF), [(0xF1, 0xF3), (0x80, 0xBF), (0x80, 0xBF), (0x80, 0xBF)]),
    ((0x100000, 0x10FFFF), [(0xF4, 0xF4), (0x80, 0x8F), (0x80, 0xBF), (0x80, 0xBF)]),
]


def boundaries():
    """cut points (a class starts at each)"""
    out = set()
    for _, rows in TABLE_3_7:
        for lo, hi in rows:
            out.add(lo)
            out.add(hi + 1)
    return out


def in_L1(seq):
    """seq: list of frozensets of byte values (classes). True iff every concretisation is one well-formed scalar."""
    for _, rows in TABLE_3_7:
        if len(rows) == len(seq) and all(s and min(s) >= lo and max(s) <= hi for s, (lo, hi) in zip(seq, rows)):
            return True
    return False


def wellformed_class_sequences(classes, min_first=0x00):
    """All sequences of alphabet classes whose product lies in one row of the table (first byte >= min_first)."""
    out = []
    for (slo, shi), rows in TABLE_3_7:
        per_pos = []
        for lo, hi in rows:
            per_pos.append([c for c in classes if min(c) >= lo and max(c) <= hi])
        seqs = [[]]
        for opts in per_pos:
            seqs = [s + [c] for s in seqs for c in opts]
        for s in seqs:
            if min(s[0]) >= min_first:
                out.append(tuple(s))
    return out
