"""Reference key decoder (property C04), written from the statement sentence by sentence.

State = (mem, csi, pending)
  mem     : what the previous byte was, as far as pairing / CSI introduction cares: None | 'CR' | 'LF' | 'ESC'
            'CR'/'LF' mean "a terminator that produced an Enter and may still be completed into a pair".
  csi     : inside an `ESC [` control sequence
  pending : classes of the bytes of a not yet complete scalar value

step(state, cls) -> (state', output, in_language)
  output: None | ('Control', name) | ('Char', classes) | 'ANY' (the statement leaves it open: DEL)
  in_language is False when this byte cannot occur at this point in a stream made of key units
  (valid scalars from U+0020, CR, LF, BS, TAB, complete CSI sequences, other C0 controls).
"""
from . import utf8

ARROWS = {0x41: 'Up', 0x42: 'Down', 0x43: 'Forward', 0x44: 'Back'}


def boundaries():
    out = set(utf8.boundaries())
    for c in (0x08, 0x09, 0x0A, 0x0D, 0x1B, 0x5B):          # BS TAB LF CR ESC '['
        out.update((c, c + 1))
    out.update((0x20, 0x40, 0x7F, 0x80))                     # printable / CSI parameter / CSI final / DEL
    for c in ARROWS:
        out.update((c, c + 1))
    return out


INIT = (None, False, ())


def _rows_matching(prefix):
    rows = []
    for _, r in utf8.TABLE_3_7:
        if len(r) >= len(prefix) and all(min(c) >= lo and max(c) <= hi for c, (lo, hi) in zip(prefix, r)):
            rows.append(r)
    return rows


def step(state, cls):
    mem, csi, pending = state
    lo, hi = min(cls), max(cls)
    single = lo if lo == hi else None
    if csi:
        # "ESC [ followed by any parameter bytes and a final byte yields Up/Down/Right/Left for final A/B/C/D and
        #  nothing otherwise, with none of the sequence's bytes leaking into the line"
        if 0x20 <= lo and hi <= 0x3F:
            return (None, True, ()), None, True
        if 0x40 <= lo and hi <= 0x7E:
            if single in ARROWS:
                return (None, False, ()), ('Control', ARROWS[single]), True
            return (None, False, ()), None, True
        return state, None, False            # not a well-formed control sequence: outside the quantified streams
    if pending:
        rows = _rows_matching(pending + (cls,))
        if not rows:
            return state, None, False        # ill-formed UTF-8: outside the quantified streams (C02 covers it)
        if any(len(r) == len(pending) + 1 for r in rows):
            # "each well-formed UTF-8 scalar ... yields exactly one character"
            return (None, False, ()), ('Char', pending + (cls,)), True
        return (None, False, pending + (cls,)), None, True
    if single == 0x0D:
        # "each line terminator - CR, LF, or an adjacent CR LF / LF CR pair read greedily - yields exactly one Enter"
        if mem == 'LF':
            return (None, False, ()), None, True      # second half of LF CR: pair complete, nothing remembered
        return ('CR', False, ()), ('Control', 'Enter'), True
    if single == 0x0A:
        if mem == 'CR':
            return (None, False, ()), None, True
        return ('LF', False, ()), ('Control', 'Enter'), True
    if single == 0x08:
        return (None, False, ()), ('Control', 'Backspace'), True
    if single == 0x09:
        return (None, False, ()), ('Control', 'Tab'), True
    if single == 0x1B:
        return ('ESC', False, ()), None, True         # "(including a lone ESC) is ignored"
    if single == 0x5B and mem == 'ESC':
        return (None, True, ()), None, True
    if hi < 0x20:
        return (None, False, ()), None, True          # "every other C0 control byte ... is ignored"
    if single == 0x7F:
        return (None, False, ()), 'ANY', True         # "the treatment of DEL, U+007F, is left open"
    if hi < 0x80:
        return (None, False, ()), ('Char', (cls,)), True
    rows = _rows_matching((cls,))
    if not rows:
        return state, None, False
    return (None, False, (cls,)), None, True
